//! VERIFICATION MODEL of `rand` 0.8 (see /verif/DESIGN.md §2.4).
//! `thread_rng()` and `rngs::OsRng` hand out unconstrained values (`kani::any()` under Kani,
//! a xorshift stream natively so that replays run) and record every draw in `model`.
pub use rand_core::{CryptoRng, Error, RngCore, SeedableRng};

pub mod model {
    pub const MAX_DRAWS: usize = 96;
    /// number of 32-bit draws since reset (counts beyond MAX_DRAWS too)
    pub static mut NDRAWS: usize = 0;
    pub static mut DRAWS: [u32; MAX_DRAWS] = [0; MAX_DRAWS];
    /// number of bytes handed out through fill_bytes since reset
    pub static mut NBYTES: usize = 0;
    /// number of thread_rng()/OsRng handles created since reset
    pub static mut NHANDLES: usize = 0;
    #[cfg(not(kani))]
    pub static mut NATIVE_STATE: u64 = 0x9E37_79B9_7F4A_7C15;

    pub fn reset() {
        unsafe {
            NDRAWS = 0;
            NBYTES = 0;
            NHANDLES = 0;
        }
    }
    pub fn ndraws() -> usize {
        unsafe { NDRAWS }
    }
    pub fn nbytes() -> usize {
        unsafe { NBYTES }
    }
    pub fn draw(k: usize) -> u32 {
        unsafe { DRAWS[k] }
    }
    #[cfg(not(kani))]
    pub fn seed_native(s: u64) {
        unsafe {
            NATIVE_STATE = s | 1;
        }
    }

    /// Feature `fixedrand`: draws come from a fixed table of distinct values; the position (number of
    /// draws so far) lives in the elliptic-curve model's single static struct.  Used by the proof-flow
    /// harnesses, where fully symbolic blinding makes the solver prove associativity of products of
    /// three symbolic factors; the statement checked is then "for this draw sequence".
    #[cfg(feature = "fixedrand")]
    pub const TABLE: [u32; 16] = [2, 4, 6, 10, 12, 16, 18, 22, 28, 30, 36, 40, 42, 46, 52, 58];
    #[cfg(feature = "fixedrand")]
    pub(crate) fn fresh_u32() -> u32 {
        let o = elliptic_curve::model::oracle();
        let k = o.draw_n;
        o.draw_n = k + 1;
        TABLE[k % 16]
    }

    #[cfg(not(feature = "fixedrand"))]
    pub(crate) fn fresh_u32() -> u32 {
        #[cfg(kani)]
        let v: u32 = kani::any();
        #[cfg(not(kani))]
        let v: u32 = unsafe {
            let mut x = NATIVE_STATE;
            x ^= x << 13;
            x ^= x >> 7;
            x ^= x << 17;
            NATIVE_STATE = x;
            (x >> 16) as u32
        };
        #[cfg(feature = "drawlog")]
        unsafe {
            if NDRAWS < MAX_DRAWS {
                DRAWS[NDRAWS] = v;
            }
            NDRAWS += 1;
        }
        v
    }
    pub(crate) fn fresh_u8() -> u8 {
        #[cfg(kani)]
        let v: u8 = kani::any();
        #[cfg(not(kani))]
        let v: u8 = unsafe {
            let mut x = NATIVE_STATE;
            x ^= x << 13;
            x ^= x >> 7;
            x ^= x << 17;
            NATIVE_STATE = x;
            (x >> 24) as u8
        };
        #[cfg(feature = "drawlog")]
        unsafe {
            NBYTES += 1;
        }
        v
    }
}

macro_rules! model_rng {
    ($T:ident) => {
        impl RngCore for $T {
            fn next_u32(&mut self) -> u32 {
                model::fresh_u32()
            }
            fn next_u64(&mut self) -> u64 {
                ((model::fresh_u32() as u64) << 32) | model::fresh_u32() as u64
            }
            fn fill_bytes(&mut self, dest: &mut [u8]) {
                let mut i = 0;
                while i < dest.len() {
                    dest[i] = model::fresh_u8();
                    i += 1;
                }
            }
            fn try_fill_bytes(&mut self, dest: &mut [u8]) -> Result<(), Error> {
                self.fill_bytes(dest);
                Ok(())
            }
        }
        impl CryptoRng for $T {}
    };
}

/// Model of `rand::rngs::ThreadRng`.
#[derive(Clone, Debug)]
pub struct ThreadRng(());
model_rng!(ThreadRng);
/// Model of `rand::thread_rng()`.
pub fn thread_rng() -> ThreadRng {
    #[cfg(feature = "drawlog")]
    unsafe {
        model::NHANDLES += 1;
    }
    ThreadRng(())
}
impl Default for ThreadRng {
    fn default() -> Self {
        thread_rng()
    }
}

pub mod rngs {
    pub use super::ThreadRng;
    use super::*;
    /// Model of `rand::rngs::OsRng`.
    #[derive(Clone, Copy, Debug, Default)]
    pub struct OsRng;
    model_rng!(OsRng);
}

/// Minimal `Rng` extension trait (only what could plausibly be called).
pub trait Rng: RngCore {
    fn gen_u32(&mut self) -> u32 {
        self.next_u32()
    }
}
impl<R: RngCore + ?Sized> Rng for R {}

pub mod prelude {
    pub use super::{thread_rng, CryptoRng, Rng, RngCore, SeedableRng, ThreadRng};
}
