//! VERIFICATION MODEL of `elliptic-curve` 0.13.8 (see /verif/DESIGN.md §2.1, §2.3).
//!
//! Only what zkryptium imports exists here: the `ff`/`group` re-exports, `Group`, and
//! `hash2curve::{ExpandMsg, Expander, ExpandMsgXmd, ExpandMsgXof}`.
//!
//! `expand_message` is the random-oracle stand-in: a cheap deterministic,
//! position-sensitive fold of (variant, every message byte, every DST byte, len_in_bytes).
//! Every query is appended to `model::LOG` (optionally with its bytes) so that harnesses
//! can state properties about *what is hashed*, and one query can be programmed.
#![allow(clippy::all)]

pub use ff;
pub use group;
pub use group::Group;
pub use rand_core;
pub use subtle;

/// Opaque error, like the real crate's.
#[derive(Copy, Clone, Debug, Eq, PartialEq)]
pub struct Error;
impl core::fmt::Display for Error {
    fn fmt(&self, f: &mut core::fmt::Formatter<'_>) -> core::fmt::Result {
        f.write_str("crypto error")
    }
}
impl std::error::Error for Error {}
/// Result alias, like the real crate's.
pub type Result<T> = core::result::Result<T, Error>;

pub mod model {
    //! Oracle query log and programming interface used by the harnesses.
    pub const TAG_XMD: u8 = 1;
    pub const TAG_XOF: u8 = 2;
    pub const MAX_Q: usize = 16;
    /// byte capture is only compiled in with the `logbytes` feature (it enlarges every trace)
    #[cfg(feature = "logbytes")]
    pub const MAX_MSG: usize = 640;
    #[cfg(feature = "logbytes")]
    pub const MAX_DST: usize = 96;
    #[cfg(not(feature = "logbytes"))]
    pub const MAX_MSG: usize = 1;
    #[cfg(not(feature = "logbytes"))]
    pub const MAX_DST: usize = 1;

    #[derive(Clone, Copy)]
    pub struct Query {
        pub tag: u8,
        pub len_in_bytes: usize,
        pub msg_len: usize,
        pub dst_len: usize,
        /// fold state after absorbing everything (what the output bytes are derived from)
        pub state: u16,
        pub msg: [u8; MAX_MSG],
        pub dst: [u8; MAX_DST],
    }
    pub const EMPTY: Query = Query {
        tag: 0,
        len_in_bytes: 0,
        msg_len: 0,
        dst_len: 0,
        state: 0,
        msg: [0; MAX_MSG],
        dst: [0; MAX_DST],
    };
    /// Number of queries made since `reset` (counts also those beyond MAX_Q).
    pub static mut NQ: usize = 0;
    pub static mut LOG: [Query; MAX_Q] = [EMPTY; MAX_Q];
    /// Record message/DST bytes (costly: copy loops) or only lengths and state.
    pub static mut LOG_BYTES: bool = false;
    /// If `PROG_IDX == k`, the k-th query's state is replaced by `PROG_STATE`.
    pub static mut PROG_IDX: usize = usize::MAX;
    pub static mut PROG_STATE: u16 = 0;

    pub fn reset() {
        unsafe {
            NQ = 0;
        }
    }
    pub fn set_log_bytes(on: bool) {
        unsafe {
            LOG_BYTES = on;
        }
    }
    pub fn program(idx: usize, state: u16) {
        unsafe {
            PROG_IDX = idx;
            PROG_STATE = state;
        }
    }
    pub fn nq() -> usize {
        unsafe { NQ }
    }
    pub fn query(k: usize) -> &'static Query {
        unsafe { &*core::ptr::addr_of!(LOG[k]) }
    }

    #[inline]
    pub fn mix(s: u16, b: u8) -> u16 {
        // s*31 + b  (mod 2^16)
        (s << 5).wrapping_sub(s).wrapping_add(b as u16)
    }

    #[inline]
    fn absorb(mut s: u16, m: &[u8]) -> u16 {
        // 8 bytes per iteration keeps the loop trip count (and hence the unwind bound every harness
        // needs) small: an 800-byte input is 100 iterations
        let n = m.len();
        let mut i = 0;
        while i + 8 <= n {
            s = mix(mix(mix(mix(mix(mix(mix(mix(s, m[i]), m[i + 1]), m[i + 2]), m[i + 3]), m[i + 4]), m[i + 5]), m[i + 6]), m[i + 7]);
            i += 8;
        }
        while i < n {
            s = mix(s, m[i]);
            i += 1;
        }
        s
    }

    /// The fold itself; public so that reference code can evaluate the oracle without logging.
    pub fn fold(tag: u8, msgs: &[&[u8]], dsts: &[&[u8]], len_in_bytes: usize) -> u16 {
        let mut s: u16 = 0x9E37 ^ (len_in_bytes as u16) ^ ((tag as u16) << 12);
        let mut k = 0;
        while k < msgs.len() {
            s = absorb(s, msgs[k]);
            k += 1;
        }
        s = s.wrapping_add(0x1357);
        let mut k = 0;
        while k < dsts.len() {
            s = absorb(s, dsts[k]);
            k += 1;
        }
        s.wrapping_add(0x2468)
    }

    /// Programmable oracle (feature `prog`): while `ORACLE.on`, the k-th query is answered with the
    /// programmed state `ORACLE.ans[k]` (no byte is read), and its message / DST lengths are recorded.
    /// All state lives in ONE static struct (see DESIGN.md §2.3 rule 3 for why that matters).
    #[cfg(feature = "prog")]
    pub struct Oracle {
        pub on: bool,
        pub n: usize,
        pub ans: [u16; 12],
        pub msg_len: [usize; 12],
        pub dst_len: [usize; 12],
        /// up to two queries (by index) whose message octets are captured for comparison
        pub cap_idx: [usize; 2],
        pub cap: [[u8; CAP_LEN]; 2],
        /// first DST_HEAD octets of every query's DST (domain-separation checks)
        pub dst_head: [[u8; DST_HEAD]; 12],
        /// number of random draws so far (used by the rand model's `fixedrand` mode; kept here so
        /// that the whole build has exactly ONE mutable static)
        pub draw_n: usize,
    }
    #[cfg(feature = "prog")]
    pub const CAP_LEN: usize = 448;
    #[cfg(feature = "prog")]
    pub const DST_HEAD: usize = 56;
    #[cfg(feature = "prog")]
    pub static mut ORACLE: Oracle = Oracle {
        on: false, n: 0, ans: [0; 12], msg_len: [0; 12], dst_len: [0; 12],
        cap_idx: [usize::MAX; 2], cap: [[0; CAP_LEN]; 2], dst_head: [[0; DST_HEAD]; 12], draw_n: 0,
    };
    #[cfg(feature = "prog")]
    pub fn oracle() -> &'static mut Oracle {
        unsafe { &mut *core::ptr::addr_of_mut!(ORACLE) }
    }
    #[cfg(feature = "prog")]
    pub(crate) fn record(tag: u8, msgs: &[&[u8]], dsts: &[&[u8]], len_in_bytes: usize) -> u16 {
        let o = oracle();
        if !o.on {
            return fold(tag, msgs, dsts, len_in_bytes);
        }
        let k = o.n;
        assert!(k < 12, "oracle table exhausted");
        let mut ml = 0;
        let mut j = 0;
        while j < msgs.len() {
            ml += msgs[j].len();
            j += 1;
        }
        let mut dl = 0;
        let mut j = 0;
        while j < dsts.len() {
            dl += dsts[j].len();
            j += 1;
        }
        o.msg_len[k] = ml;
        o.dst_len[k] = dl;
        // head of the (single-slice) DST
        if dsts.len() > 0 {
            let d = dsts[0];
            let n = if d.len() < DST_HEAD { d.len() } else { DST_HEAD };
            let mut i = 0;
            while i < n {
                o.dst_head[k][i] = d[i];
                i += 1;
            }
        }
        let mut c = 0;
        while c < 2 {
            if o.cap_idx[c] == k {
                let mut off = 0;
                let mut j = 0;
                while j < msgs.len() {
                    let m = msgs[j];
                    let n = if off + m.len() <= CAP_LEN { m.len() } else { CAP_LEN - off };
                    let mut i = 0;
                    // 8 octets per iteration keeps the trip count below the harness unwind bound
                    while i + 8 <= n {
                        o.cap[c][off + i] = m[i];
                        o.cap[c][off + i + 1] = m[i + 1];
                        o.cap[c][off + i + 2] = m[i + 2];
                        o.cap[c][off + i + 3] = m[i + 3];
                        o.cap[c][off + i + 4] = m[i + 4];
                        o.cap[c][off + i + 5] = m[i + 5];
                        o.cap[c][off + i + 6] = m[i + 6];
                        o.cap[c][off + i + 7] = m[i + 7];
                        i += 8;
                    }
                    while i < n {
                        o.cap[c][off + i] = m[i];
                        i += 1;
                    }
                    off += n;
                    j += 1;
                }
            }
            c += 1;
        }
        o.n = k + 1;
        o.ans[k]
    }

    /// Without the `oraclelog` feature the oracle is a pure function (no global state is touched:
    /// Kani 0.68 / CBMC 6.11 report spurious invalid-pointer failures after writes to some statics).
    #[cfg(not(any(feature = "oraclelog", feature = "prog")))]
    pub(crate) fn record(tag: u8, msgs: &[&[u8]], dsts: &[&[u8]], len_in_bytes: usize) -> u16 {
        fold(tag, msgs, dsts, len_in_bytes)
    }

    #[cfg(all(feature = "oraclelog", not(feature = "prog")))]
    pub(crate) fn record(tag: u8, msgs: &[&[u8]], dsts: &[&[u8]], len_in_bytes: usize) -> u16 {
        let mut state = fold(tag, msgs, dsts, len_in_bytes);
        unsafe {
            let k = NQ;
            if PROG_IDX == k {
                state = PROG_STATE;
            }
            if k < MAX_Q {
                let q = &mut *core::ptr::addr_of_mut!(LOG[k]);
                q.tag = tag;
                q.len_in_bytes = len_in_bytes;
                q.state = state;
                let mut ml = 0usize;
                let mut j = 0;
                while j < msgs.len() {
                    let m = msgs[j];
                    if LOG_BYTES {
                        let mut i = 0;
                        while i < m.len() {
                            if ml + i < MAX_MSG {
                                q.msg[ml + i] = m[i];
                            }
                            i += 1;
                        }
                    }
                    ml += m.len();
                    j += 1;
                }
                q.msg_len = ml;
                let mut dl = 0usize;
                let mut j = 0;
                while j < dsts.len() {
                    let m = dsts[j];
                    if LOG_BYTES {
                        let mut i = 0;
                        while i < m.len() {
                            if dl + i < MAX_DST {
                                q.dst[dl + i] = m[i];
                            }
                            i += 1;
                        }
                    }
                    dl += m.len();
                    j += 1;
                }
                q.dst_len = dl;
            }
            NQ = k + 1;
        }
        state
    }
}

pub mod hash2curve {
    //! Model of the hash2curve expanders.
    use super::model;
    use super::{Error, Result};
    use core::marker::PhantomData;

    /// Same shape as the real trait.
    pub trait ExpandMsg<'a> {
        type Expander: Expander + Sized;
        fn expand_message(
            msgs: &[&[u8]],
            dsts: &'a [&'a [u8]],
            len_in_bytes: usize,
        ) -> Result<Self::Expander>;
    }
    /// Same shape as the real trait.
    pub trait Expander {
        fn fill_bytes(&mut self, okm: &mut [u8]);
    }

    /// Output stream derived from the fold state.
    pub struct ModelExpander {
        pub state: u16,
        pub ctr: u16,
    }
    impl Expander for ModelExpander {
        /// output stream: the two state octets, repeated with a position-dependent mask, so that the
        /// first two octets carry the whole 16-bit state (every scalar value is reachable)
        fn fill_bytes(&mut self, okm: &mut [u8]) {
            let lo = self.state as u8;
            let hi = (self.state >> 8) as u8;
            let mut i = 0;
            while i < okm.len() {
                let m = ((self.ctr >> 1) as u8).wrapping_mul(0x3D);
                okm[i] = (if self.ctr & 1 == 0 { lo } else { hi }) ^ m;
                self.ctr = self.ctr.wrapping_add(1);
                i += 1;
            }
        }
    }

    fn expand(tag: u8, msgs: &[&[u8]], dsts: &[&[u8]], len_in_bytes: usize) -> Result<ModelExpander> {
        // the real expanders refuse an empty DST list, a zero length and lengths > 65535
        if dsts.len() == 0 || len_in_bytes == 0 || len_in_bytes > 65535 {
            return Err(Error);
        }
        let state = model::record(tag, msgs, dsts, len_in_bytes);
        Ok(ModelExpander { state, ctr: 0 })
    }

    /// Model of `ExpandMsgXmd<H>`.
    pub struct ExpandMsgXmd<H>(PhantomData<H>);
    impl<'a, H> ExpandMsg<'a> for ExpandMsgXmd<H> {
        type Expander = ModelExpander;
        fn expand_message(
            msgs: &[&[u8]],
            dsts: &'a [&'a [u8]],
            len_in_bytes: usize,
        ) -> Result<Self::Expander> {
            expand(model::TAG_XMD, msgs, dsts, len_in_bytes)
        }
    }
    /// Model of `ExpandMsgXof<H>`.
    pub struct ExpandMsgXof<H>(PhantomData<H>);
    impl<'a, H> ExpandMsg<'a> for ExpandMsgXof<H> {
        type Expander = ModelExpander;
        fn expand_message(
            msgs: &[&[u8]],
            dsts: &'a [&'a [u8]],
            len_in_bytes: usize,
        ) -> Result<Self::Expander> {
            expand(model::TAG_XOF, msgs, dsts, len_in_bytes)
        }
    }
}
