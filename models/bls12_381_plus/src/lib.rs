//! VERIFICATION MODEL of `bls12_381_plus` 0.8.18 (see /verif/DESIGN.md §2.2).
//!
//! A bilinear group of prime order `Q`: G1, G2 and Gt elements are represented by their
//! discrete logarithm in Z_Q, so `+` is addition, scalar `*` is multiplication and the pairing
//! is `e(a, b) = a * b`.  Codecs are canonical fixed-width strings that reject every
//! non-canonical byte pattern (stand-in for curve / subgroup / range checks).
#![allow(non_snake_case)]
#![allow(clippy::all)]

pub use elliptic_curve;
pub use ff;
pub use group;

use core::ops::{Add, AddAssign, Mul, MulAssign, Neg, Sub, SubAssign};
use elliptic_curve::hash2curve::{ExpandMsg, Expander};
use serde::{Deserialize, Serialize};
use subtle::{Choice, ConditionallySelectable, ConstantTimeEq, CtOption};

/// Order of the model group.  257 is prime and exceeds every byte value, so that *every* octet is a
/// valid scalar low byte / point payload: decoding a canonically framed string never branches on its
/// (symbolic) contents, which keeps container lengths concrete for the symbolic-execution engine.
pub const Q: u32 = 257;

pub mod model {
    //! counters readable by harnesses
    /// number of hash-to-curve invocations (work bound, C08)
    pub static mut HASH_COUNT: usize = 0;
    /// number of scalar inversions of zero attempted
    pub static mut INV_ZERO: usize = 0;
    pub fn reset() {
        unsafe {
            HASH_COUNT = 0;
            INV_ZERO = 0;
        }
    }
    pub fn hash_count() -> usize {
        unsafe { HASH_COUNT }
    }
}

#[inline]
fn red(x: u32) -> u16 {
    (x % Q) as u16
}
#[inline]
fn addq(a: u16, b: u16) -> u16 {
    red(a as u32 + b as u32)
}
#[inline]
fn subq(a: u16, b: u16) -> u16 {
    red(a as u32 + Q - b as u32)
}
#[inline]
fn mulq(a: u16, b: u16) -> u16 {
    red(a as u32 * b as u32)
}
#[inline]
fn negq(a: u16) -> u16 {
    red(Q - a as u32)
}

macro_rules! ct_impls {
    ($T:ident) => {
        impl ConditionallySelectable for $T {
            fn conditional_select(a: &Self, b: &Self, c: Choice) -> Self {
                $T(u16::conditional_select(&a.0, &b.0, c))
            }
        }
        impl ConstantTimeEq for $T {
            fn ct_eq(&self, o: &Self) -> Choice {
                self.0.ct_eq(&o.0)
            }
        }
    };
}

macro_rules! binop_refs {
    ($lhs:ty, $rhs:ty, $out:ty, $tr:ident, $f:ident, $body:expr) => {
        impl $tr<$rhs> for $lhs {
            type Output = $out;
            #[inline]
            fn $f(self, rhs: $rhs) -> $out {
                let f: fn(&$lhs, &$rhs) -> $out = $body;
                f(&self, &rhs)
            }
        }
        impl<'a> $tr<&'a $rhs> for $lhs {
            type Output = $out;
            #[inline]
            fn $f(self, rhs: &'a $rhs) -> $out {
                let f: fn(&$lhs, &$rhs) -> $out = $body;
                f(&self, rhs)
            }
        }
        impl<'a> $tr<$rhs> for &'a $lhs {
            type Output = $out;
            #[inline]
            fn $f(self, rhs: $rhs) -> $out {
                let f: fn(&$lhs, &$rhs) -> $out = $body;
                f(self, &rhs)
            }
        }
        impl<'a, 'b> $tr<&'b $rhs> for &'a $lhs {
            type Output = $out;
            #[inline]
            fn $f(self, rhs: &'b $rhs) -> $out {
                let f: fn(&$lhs, &$rhs) -> $out = $body;
                f(self, rhs)
            }
        }
    };
}

// ---------------------------------------------------------------- Scalar
/// Element of Z_Q.  `.0` is the value; `.1` is a sound hint "known to be non-zero" (set by the
/// decoder for the non-zero encoding form, by `random`, `invert`; never by arithmetic), which only
/// serves comparisons with zero to constant-fold during symbolic execution.  Invariant: `.1 => .0 != 0`.
#[derive(Clone, Copy, Debug, Default, Serialize, Deserialize)]
pub struct Scalar(pub u16, pub u16);
impl PartialEq for Scalar {
    #[inline]
    fn eq(&self, o: &Self) -> bool {
        if (self.1 != 0 && o.0 == 0) || (o.1 != 0 && self.0 == 0) {
            false
        } else {
            self.0 == o.0
        }
    }
}
impl Eq for Scalar {}

impl Scalar {
    pub const ZERO: Scalar = Scalar(0, 0);
    pub const ONE: Scalar = Scalar(1, 1);
    /// value without hint
    pub const fn from_raw(v: u16) -> Scalar {
        Scalar(v, 0)
    }
    /// value known to be non-zero
    pub const fn from_nonzero_raw(v: u16) -> Scalar {
        Scalar(v, 1)
    }
    pub const BYTES: usize = 32;

    /// canonical 32-octet encoding: 30 zero octets, then a form octet and a payload octet:
    /// zero is [0, 0]; a non-zero value v (1..=256) is [1, v - 1].  (Not a big-endian integer: the
    /// zero / non-zero distinction is syntactic, like the point codecs' identity flag.)
    pub fn from_be_bytes(bytes: &[u8; 32]) -> CtOption<Self> {
        let mut hi: u8 = 0;
        let mut i = 0;
        while i < 30 {
            hi |= bytes[i];
            i += 1;
        }
        let ok = hi == 0 && (bytes[30] == 1 || (bytes[30] == 0 && bytes[31] == 0));
        let v = if bytes[30] == 1 { bytes[31] as u16 + 1 } else { 0 };
        CtOption::new(Scalar(if ok { v } else { 0 }, (ok && bytes[30] == 1) as u16), Choice::from(ok as u8))
    }
    pub fn to_be_bytes(&self) -> [u8; 32] {
        let mut out = [0u8; 32];
        if self.0 != 0 {
            out[30] = 1;
            out[31] = (self.0 - 1) as u8;
        }
        out
    }
    /// stand-in for OS2IP(okm) mod r.  On the model expander's stream the value is the 16-bit oracle
    /// state (first two octets) reduced mod Q, so all 257 values are reachable.  On a ZERO-EXTENDED
    /// 32-octet scalar encoding (46 leading zero octets) it agrees with the scalar codec for canonical
    /// strings and reduces a non-canonical tail mod Q - the relation OS2IP(0 || x) mod r = x mod r that
    /// code may rely on.
    pub fn from_okm(bytes: &[u8; 48]) -> Scalar {
        let mut hi: u8 = 0;
        let mut i = 0;
        while i < 46 {
            hi |= bytes[i];
            i += 1;
        }
        if hi == 0 {
            if bytes[46] == 1 {
                Scalar(bytes[47] as u16 + 1, 1)
            } else if bytes[46] == 0 && bytes[47] == 0 {
                Scalar(0, 0)
            } else {
                let v = ((bytes[46] as u32) << 8) | bytes[47] as u32;
                Scalar((v % Q) as u16, 0)
            }
        } else {
            let v = (bytes[0] as u32) | ((bytes[1] as u32) << 8);
            Scalar((v % Q) as u16, 0)
        }
    }
    /// Model: a uniformly random NON-ZERO scalar (zero has probability 1/r in the real field and is
    /// one of the globally excluded degenerate events): one draw, mapped to 1..=256 without a branch.
    pub fn random(mut rng: impl rand_core::RngCore) -> Self {
        Scalar(((rng.next_u32() & 0xff) as u16) + 1, 1)
    }
    pub fn invert(&self) -> CtOption<Self> {
        // Under Kani the inversion of zero (sk + e = 0, r2 = 0: probability 1/r in the real group) is
        // ASSUMED AWAY instead of being a branch, so that results of callers keep a constant shape for
        // the symbolic execution; it is one of the stated global assumptions (DESIGN.md).
        #[cfg(kani)]
        kani::assume(self.0 != 0);
        #[cfg(not(kani))]
        if self.0 == 0 {
            return CtOption::new(Scalar(0, 0), Choice::from(0));
        }
        #[cfg(kani)]
        {
            let w: u16 = kani::any();
            kani::assume((w as u32) < Q && mulq(w, self.0) == 1);
            CtOption::new(Scalar(w, 1), Choice::from(1))
        }
        #[cfg(not(kani))]
        {
            let mut acc: u16 = 1;
            let mut k = 0;
            while k < Q - 2 {
                acc = mulq(acc, self.0);
                k += 1;
            }
            CtOption::new(Scalar(acc, 1), Choice::from(1))
        }
    }
    pub fn is_zero(&self) -> Choice {
        Choice::from((self.0 == 0) as u8)
    }
    pub fn square(&self) -> Self {
        Scalar(mulq(self.0, self.0), 0)
    }
    pub fn double(&self) -> Self {
        Scalar(addq(self.0, self.0), 0)
    }
}
impl ConditionallySelectable for Scalar {
    fn conditional_select(a: &Self, b: &Self, c: Choice) -> Self {
        Scalar(u16::conditional_select(&a.0, &b.0, c), u16::conditional_select(&a.1, &b.1, c))
    }
}
impl ConstantTimeEq for Scalar {
    fn ct_eq(&self, o: &Self) -> Choice {
        Choice::from((self == o) as u8)
    }
}
impl From<u64> for Scalar {
    fn from(v: u64) -> Self {
        Scalar((v % Q as u64) as u16, 0)
    }
}
binop_refs!(Scalar, Scalar, Scalar, Add, add, |a, b| Scalar(addq(a.0, b.0), 0));
binop_refs!(Scalar, Scalar, Scalar, Sub, sub, |a, b| Scalar(subq(a.0, b.0), 0));
binop_refs!(Scalar, Scalar, Scalar, Mul, mul, |a, b| Scalar(mulq(a.0, b.0), 0));
impl Neg for Scalar {
    type Output = Scalar;
    fn neg(self) -> Scalar {
        Scalar(negq(self.0), self.1)
    }
}
impl<'a> Neg for &'a Scalar {
    type Output = Scalar;
    fn neg(self) -> Scalar {
        Scalar(negq(self.0), self.1)
    }
}
impl AddAssign for Scalar {
    fn add_assign(&mut self, r: Scalar) {
        *self = *self + r;
    }
}
impl<'a> AddAssign<&'a Scalar> for Scalar {
    fn add_assign(&mut self, r: &'a Scalar) {
        *self = *self + *r;
    }
}
impl SubAssign for Scalar {
    fn sub_assign(&mut self, r: Scalar) {
        *self = *self - r;
    }
}
impl MulAssign for Scalar {
    fn mul_assign(&mut self, r: Scalar) {
        *self = *self * r;
    }
}

// ---------------------------------------------------------------- groups
macro_rules! group_model {
    ($P:ident, $A:ident, $CB:expr, $UB:expr) => {
        /// `.0` is the discrete log; `.1` is a sound *hint* "known to be non-identity" (set by the
        /// decoders, the hash and the generator; never by arithmetic).  Invariant: `.1 => .0 != 0`.
        /// The hint only serves equality with the identity to constant-fold during symbolic execution.
        #[derive(Clone, Copy, Debug, Default, Serialize, Deserialize)]
        pub struct $P(pub u16, pub u16);
        #[derive(Clone, Copy, Debug, Default, Serialize, Deserialize)]
        pub struct $A(pub u16, pub u16);
        impl PartialEq for $P {
            #[inline]
            fn eq(&self, o: &Self) -> bool {
                if (self.1 != 0 && o.0 == 0) || (o.1 != 0 && self.0 == 0) {
                    false
                } else {
                    self.0 == o.0
                }
            }
        }
        impl Eq for $P {}
        impl PartialEq for $A {
            #[inline]
            fn eq(&self, o: &Self) -> bool {
                if (self.1 != 0 && o.0 == 0) || (o.1 != 0 && self.0 == 0) {
                    false
                } else {
                    self.0 == o.0
                }
            }
        }
        impl Eq for $A {}
        impl ConditionallySelectable for $P {
            fn conditional_select(a: &Self, b: &Self, c: Choice) -> Self {
                $P(u16::conditional_select(&a.0, &b.0, c), u16::conditional_select(&a.1, &b.1, c))
            }
        }
        impl ConstantTimeEq for $P {
            fn ct_eq(&self, o: &Self) -> Choice {
                Choice::from((self == o) as u8)
            }
        }
        impl ConditionallySelectable for $A {
            fn conditional_select(a: &Self, b: &Self, c: Choice) -> Self {
                $A(u16::conditional_select(&a.0, &b.0, c), u16::conditional_select(&a.1, &b.1, c))
            }
        }
        impl ConstantTimeEq for $A {
            fn ct_eq(&self, o: &Self) -> Choice {
                Choice::from((self == o) as u8)
            }
        }
        impl $P {
            /// element with the given discrete log (hint unknown)
            pub const fn from_dlog(d: u16) -> Self {
                $P(d, 0)
            }
            /// element with a discrete log known to be non-zero
            pub const fn from_nonzero_dlog(d: u16) -> Self {
                $P(d, 1)
            }
        }
        impl $P {
            pub const IDENTITY: $P = $P(0, 0);
            pub const GENERATOR: $P = $P(1, 1);
            pub const COMPRESSED_BYTES: usize = $CB;
            pub const UNCOMPRESSED_BYTES: usize = $UB;
            pub fn identity() -> Self {
                $P(0, 0)
            }
            pub fn generator() -> Self {
                $P(1, 1)
            }
            pub fn is_identity(&self) -> Choice {
                Choice::from((self.0 == 0) as u8)
            }
            pub fn to_affine(&self) -> $A {
                $A(self.0, self.1)
            }
            pub fn to_compressed(&self) -> [u8; $CB] {
                $A(self.0, self.1).to_compressed()
            }
            pub fn to_uncompressed(&self) -> [u8; $UB] {
                $A(self.0, self.1).to_uncompressed()
            }
            pub fn from_compressed(bytes: &[u8; $CB]) -> CtOption<Self> {
                $A::from_compressed(bytes).map($P::from)
            }
            pub fn from_uncompressed(bytes: &[u8; $UB]) -> CtOption<Self> {
                $A::from_uncompressed(bytes).map($P::from)
            }
            /// Model: the hex strings in zkryptium are encodings of real curve points (the
            /// ciphersuites' P1); they are mapped to a fixed non-identity element determined by
            /// the first encoded byte, so the two suites get different base points.
            pub fn from_compressed_hex(hex: &str) -> CtOption<Self> {
                let b = hex.as_bytes();
                if b.len() != 2 * $CB {
                    return CtOption::new($P(0, 0), Choice::from(0));
                }
                let hv = |c: u8| -> u16 {
                    match c {
                        b'0'..=b'9' => (c - b'0') as u16,
                        b'a'..=b'f' => (c - b'a' + 10) as u16,
                        b'A'..=b'F' => (c - b'A' + 10) as u16,
                        _ => 0,
                    }
                };
                let v = (hv(b[0]) * 16 + hv(b[1])) % 256 + 1;
                CtOption::new($P(v, 1), Choice::from(1))
            }
            /// Model of hash_to_curve: one oracle query (len 128 like the real hash_to_field for
            /// two field elements), mapped to a non-identity element.
            pub fn hash<X>(msg: &[u8], dst: &[u8]) -> Self
            where
                X: for<'a> ExpandMsg<'a>,
            {
                #[cfg(feature = "counters")]
                unsafe {
                    model::HASH_COUNT += 1;
                }
                let mut buf = [0u8; 2];
                let dsts = [dst];
                let mut e = X::expand_message(&[msg], &dsts, 128).unwrap();
                e.fill_bytes(&mut buf);
                let v = ((buf[0] ^ buf[1].rotate_left(3)) as u16) + 1;
                $P(v, 1)
            }
            pub fn double(&self) -> Self {
                $P(addq(self.0, self.0), 0)
            }
            /// multi-scalar multiplication (the real one pairs up to the shorter of the two slices)
            pub fn sum_of_products(points: &[Self], scalars: &[Scalar]) -> Self {
                let n = if points.len() < scalars.len() { points.len() } else { scalars.len() };
                let mut acc: u16 = 0;
                let mut i = 0;
                while i < n {
                    acc = addq(acc, mulq(points[i].0, scalars[i].0));
                    i += 1;
                }
                $P(acc, 0)
            }
            pub fn sum_of_products_in_place(points: &[Self], scalars: &mut [Scalar]) -> Self {
                Self::sum_of_products(points, scalars)
            }
        }
        impl $A {
            pub const COMPRESSED_BYTES: usize = $CB;
            pub const UNCOMPRESSED_BYTES: usize = $UB;
            pub fn identity() -> Self {
                $A(0, 0)
            }
            pub fn generator() -> Self {
                $A(1, 1)
            }
            pub fn is_identity(&self) -> Choice {
                Choice::from((self.0 == 0) as u8)
            }
            pub fn to_curve(&self) -> $P {
                $P(self.0, self.1)
            }
            /// canonical compressed form: the identity is [0xC0, 0, ..]; a non-identity element with
            /// discrete log d (1..=256) is [0x80, 0, .., d - 1]
            pub fn to_compressed(&self) -> [u8; $CB] {
                let mut out = [0u8; $CB];
                if self.0 == 0 {
                    out[0] = 0xC0;
                } else {
                    out[0] = 0x80;
                    out[$CB - 1] = (self.0 - 1) as u8;
                }
                out
            }
            pub fn to_uncompressed(&self) -> [u8; $UB] {
                let mut out = [0u8; $UB];
                if self.0 == 0 {
                    out[0] = 0x40;
                } else {
                    out[$UB - 1] = (self.0 - 1) as u8;
                }
                out
            }
            pub fn from_compressed(bytes: &[u8; $CB]) -> CtOption<Self> {
                let mut mid: u8 = 0;
                let mut i = 1;
                while i < $CB - 1 {
                    mid |= bytes[i];
                    i += 1;
                }
                let v = bytes[$CB - 1];
                let ok = mid == 0 && (bytes[0] == 0x80 || (bytes[0] == 0xC0 && v == 0));
                let d = if bytes[0] == 0x80 { v as u16 + 1 } else { 0 };
                CtOption::new($A(if ok { d } else { 0 }, (ok && bytes[0] == 0x80) as u16), Choice::from(ok as u8))
            }
            pub fn from_uncompressed(bytes: &[u8; $UB]) -> CtOption<Self> {
                let mut mid: u8 = 0;
                let mut i = 1;
                while i < $UB - 1 {
                    mid |= bytes[i];
                    i += 1;
                }
                let v = bytes[$UB - 1];
                let ok = mid == 0 && (bytes[0] == 0x00 || (bytes[0] == 0x40 && v == 0));
                let d = if bytes[0] == 0x00 { v as u16 + 1 } else { 0 };
                CtOption::new($A(if ok { d } else { 0 }, (ok && bytes[0] == 0x00) as u16), Choice::from(ok as u8))
            }
        }
        impl From<$A> for $P {
            fn from(a: $A) -> $P {
                $P(a.0, a.1)
            }
        }
        impl<'a> From<&'a $A> for $P {
            fn from(a: &'a $A) -> $P {
                $P(a.0, a.1)
            }
        }
        impl From<$P> for $A {
            fn from(a: $P) -> $A {
                $A(a.0, a.1)
            }
        }
        impl<'a> From<&'a $P> for $A {
            fn from(a: &'a $P) -> $A {
                $A(a.0, a.1)
            }
        }
        binop_refs!($P, $P, $P, Add, add, |a, b| $P(addq(a.0, b.0), 0));
        binop_refs!($P, $P, $P, Sub, sub, |a, b| $P(subq(a.0, b.0), 0));
        binop_refs!($P, Scalar, $P, Mul, mul, |a, s| $P(mulq(a.0, s.0), 0));
        binop_refs!($A, Scalar, $P, Mul, mul, |a, s| $P(mulq(a.0, s.0), 0));
        binop_refs!($P, $A, $P, Add, add, |a, b| $P(addq(a.0, b.0), 0));
        binop_refs!($P, $A, $P, Sub, sub, |a, b| $P(subq(a.0, b.0), 0));
        impl Neg for $P {
            type Output = $P;
            fn neg(self) -> $P {
                $P(negq(self.0), self.1)
            }
        }
        impl<'a> Neg for &'a $P {
            type Output = $P;
            fn neg(self) -> $P {
                $P(negq(self.0), self.1)
            }
        }
        impl Neg for $A {
            type Output = $A;
            fn neg(self) -> $A {
                $A(negq(self.0), self.1)
            }
        }
        impl<'a> Neg for &'a $A {
            type Output = $A;
            fn neg(self) -> $A {
                $A(negq(self.0), self.1)
            }
        }
        impl AddAssign for $P {
            fn add_assign(&mut self, r: $P) {
                *self = *self + r;
            }
        }
        impl<'a> AddAssign<&'a $P> for $P {
            fn add_assign(&mut self, r: &'a $P) {
                *self = *self + *r;
            }
        }
        impl SubAssign for $P {
            fn sub_assign(&mut self, r: $P) {
                *self = *self - r;
            }
        }
        impl<'a> SubAssign<&'a $P> for $P {
            fn sub_assign(&mut self, r: &'a $P) {
                *self = *self - *r;
            }
        }
        impl MulAssign<Scalar> for $P {
            fn mul_assign(&mut self, r: Scalar) {
                *self = *self * r;
            }
        }
        impl<'a> MulAssign<&'a Scalar> for $P {
            fn mul_assign(&mut self, r: &'a Scalar) {
                *self = *self * *r;
            }
        }
    };
}

group_model!(G1Projective, G1Affine, 48, 96);
group_model!(G2Projective, G2Affine, 96, 192);

// ---------------------------------------------------------------- pairing
#[derive(Clone, Copy, PartialEq, Eq, Debug, Default)]
pub struct G2Prepared(pub u16);
impl From<G2Affine> for G2Prepared {
    fn from(a: G2Affine) -> Self {
        G2Prepared(a.0)
    }
}
impl From<G2Projective> for G2Prepared {
    fn from(a: G2Projective) -> Self {
        G2Prepared(a.0)
    }
}
#[derive(Clone, Copy, PartialEq, Eq, Debug, Default)]
pub struct MillerLoopResult(pub u16);
/// Target group, written additively in the model (identity = 0).
#[derive(Clone, Copy, PartialEq, Eq, Debug, Default)]
pub struct Gt(pub u16);
ct_impls!(Gt);
impl Gt {
    pub const IDENTITY: Gt = Gt(0);
    pub fn identity() -> Self {
        Gt(0)
    }
    pub fn is_identity(&self) -> Choice {
        Choice::from((self.0 == 0) as u8)
    }
}
impl MillerLoopResult {
    pub fn final_exponentiation(&self) -> Gt {
        Gt(self.0)
    }
}
pub fn multi_miller_loop(terms: &[(&G1Affine, &G2Prepared)]) -> MillerLoopResult {
    let mut acc: u16 = 0;
    let mut i = 0;
    while i < terms.len() {
        let (a, b) = terms[i];
        acc = addq(acc, mulq(a.0, b.0));
        i += 1;
    }
    MillerLoopResult(acc)
}
pub fn pairing(a: &G1Affine, b: &G2Affine) -> Gt {
    Gt(mulq(a.0, b.0))
}

#[cfg(test)]
mod tests {
    use super::*;
    #[test]
    fn field_axioms_exhaustive() {
        for a in 0..Q as u16 {
            let sa = Scalar(a, 0);
            if a != 0 {
                assert_eq!(sa * sa.invert().unwrap(), Scalar::ONE);
            }
            for b in 0..Q as u16 {
                let sb = Scalar(b, 0);
                assert_eq!((sa + sb) - sb, sa);
                assert_eq!(sa * sb, sb * sa);
                assert_eq!(pairing(&G1Affine(a), &G2Affine(b)).0, mulq(a, b));
            }
            assert_eq!(Scalar::from_be_bytes(&sa.to_be_bytes()).unwrap(), sa);
            assert_eq!(
                G1Affine::from_compressed(&G1Affine(a).to_compressed()).unwrap(),
                G1Affine(a)
            );
            assert_eq!(
                G2Affine::from_uncompressed(&G2Affine(a).to_uncompressed()).unwrap(),
                G2Affine(a)
            );
        }
    }
}
