"""Harness registry: which solver queries decide which property, per tier (DESIGN.md §3)."""
import random
from .runner import Spec

SUITES = {"sha": "Bls12381Sha256", "shk": "Bls12381Shake256"}


def pick(seed, tag, universe, k):
    r = random.Random("%s/%s" % (seed, tag))
    u = list(universe)
    r.shuffle(u)
    return sorted(u[:k])


def lens(tier, seed, tag, boundary, maxlen, extra=3):
    if tier == "thorough":
        return list(range(0, maxlen + 1))
    b = sorted(set(x for x in boundary if 0 <= x <= maxlen))
    rest = [x for x in range(0, maxlen + 1) if x not in b]
    return sorted(set(b + pick(seed, tag, rest, extra)))


def suites(tier, seed, tag):
    if tier == "thorough":
        return list(SUITES.items())
    return list(SUITES.items())


def one_suite(tier, seed, tag):
    """quick tier alternates the suite by seed for shapes where both suites share all code"""
    if tier == "thorough":
        return list(SUITES.items())
    ks = sorted(SUITES)
    r = random.Random("%s/%s" % (seed, tag)).randrange(2)
    return [(ks[r], SUITES[ks[r]])]


# --------------------------------------------------------------------------------------------
def c08(tier, seed):
    S = []
    for n in lens(tier, seed, "pk", [0, 1, 47, 48, 95, 96, 97], 136):
        S.append(Spec("c08_dec_pk_l%d" % n, "c08::dec_pk::<%d>()" % n, 100, shape=dict(entry="PublicKey::from_bytes", len=n), replay="dec"))
    for n in lens(tier, seed, "sk", [0, 1, 31, 32, 33], 72):
        S.append(Spec("c08_dec_sk_l%d" % n, "c08::dec_sk::<%d>()" % n, 40, shape=dict(entry="SecretKey::from_bytes", len=n), replay="dec"))
    S.append(Spec("c08_dec_sig", "c08::dec_sig()", 52, shape=dict(entry="Signature::from_bytes", len=80), replay="dec"))
    S.append(Spec("c08_dec_blindfactor", "c08::dec_blindfactor()", 40, shape=dict(entry="BlindFactor::from_bytes", len=32), replay="dec"))
    for n in lens(tier, seed, "proof", [0, 1, 47, 48, 95, 96, 143, 144, 175, 176, 207, 208, 239, 240, 241, 271, 272, 273, 303, 304, 305, 336, 337], 376):
        S.append(Spec("c08_dec_proof_l%d" % n, "c08::dec_proof::<%d>()" % n, 52, shape=dict(entry="PoKSignature::from_bytes", len=n), replay="dec"))
    for n in lens(tier, seed, "zkpok", [0, 1, 31, 32, 33, 63, 64, 65, 95, 96, 97], 136):
        S.append(Spec("c08_dec_zkpok_l%d" % n, "c08::dec_zkpok::<%d>()" % n, 40, shape=dict(entry="ZKPoK::from_bytes", len=n), replay="dec"))
    for n in lens(tier, seed, "commit", [0, 1, 47, 48, 49, 79, 80, 81, 111, 112, 113, 143, 144, 145], 184):
        S.append(Spec("c08_dec_commitment_l%d" % n, "c08::dec_commitment::<%d>()" % n, 52, shape=dict(entry="Commitment::from_bytes", len=n), replay="dec"))

    th = tier == "thorough"
    # operations: shapes (counts, None/empty/non-empty, index-list shape) are concrete per query; payload
    # values, single indexes and declared counts are symbolic.  Generator table + programmed message
    # scalars (stub set S3); domain / challenge hashing real.
    G = "A"
    UW = 100

    def op(name, call, stubs, shape):
        S.append(Spec("c08_op_" + name, "c08::" + call, UW, stubs, G, shape=shape, replay="op"))

    vs = [(0, 0, "true"), (0, 1, "false"), (1, 2, "false"), (2, 0, "false")]
    if th:
        vs = [(L, H, "false") for L in range(0, 4) for H in range(0, 3)] + [(0, 0, "true"), (0, 2, "true")]
    for (L, H, MN) in vs:
        for sk_, cs in (suites(tier, seed, "v") if th else one_suite(tier, seed, "c08v%d%d" % (L, H))):
            op("verify_%s_L%d_h%d_%s" % (sk_, L, H, MN[0]), "op_verify::<%s, %d, %d, %s>()" % (cs, L, H, MN), "G",
               dict(entry="verify", suite=sk_, L=L, header_shape=H, msgs_none=MN))
    # (U, index shape, #messages, header shape, ph shape)
    pv = [(0, 0, 0, 0, 0), (1, 1, 1, 2, 2), (0, 2, 2, 1, 0), (2, 2, 2, 0, 1), (1, 3, 2, 0, 0), (0, 1, 0, 0, 0), (1, 0, 1, 0, 2), (1, 4, 2, 0, 0), (1, 5, 2, 0, 0)]
    if th:
        pv += [(2, 2, 2, 2, 2), (2, 0, 0, 0, 0), (3, 0, 0, 2, 2), (2, 5, 2, 0, 0), (2, 4, 1, 0, 0), (3, 2, 2, 1, 1)]
    for (U, ISH, NM, H, PH) in pv:
        for sk_, cs in (suites(tier, seed, "pv") if th else one_suite(tier, seed, "c08pv%d%d%d" % (U, ISH, NM))):
            op("proof_verify_%s_U%d_i%d_N%d_h%d_p%d" % (sk_, U, ISH, NM, H, PH),
               "op_proof_verify::<%s, %d, %d, %d, %d, %d, %d>()" % (cs, U, 272 + 32 * U, ISH, NM, H, PH), "G",
               dict(entry="proof_verify", suite=sk_, U=U, index_shape=ISH, msgs=NM, header_shape=H, ph_shape=PH))
    # blind_proof_verify arithmetic with ANY L
    ar = [(0, 0, 0, "false"), (1, 0, 0, "false"), (1, 1, 0, "false"), (1, 0, 1, "false"), (2, 1, 1, "false"), (0, 1, 1, "true"), (1, 0, 0, "true")]
    if th:
        ar += [(0, 0, 0, "true"), (3, 0, 0, "false"), (2, 2, 2, "false"), (0, 2, 0, "false"), (0, 0, 2, "false")]
    for (U, R1, R2, LN) in ar:
        for sk_, cs in (suites(tier, seed, "ar") if th else one_suite(tier, seed, "c08ar%d%d%d" % (U, R1, R2))):
            op("bpv_arith_%s_U%d_R%d_%d_%s" % (sk_, U, R1, R2, LN[0]),
               "op_bpv_arith::<%s, %d, %d, %d, %d, %s>()" % (cs, U, 272 + 32 * U, R1, R2, LN), "PP",
               dict(entry="blind_proof_verify", part="arithmetic before prepare_parameters", suite=sk_, U=U, R1=R1, R2=R2, L=("None" if LN == "true" else "any usize")))
    # blind_proof_verify index handling with concrete L: (U, L, shape1, shape2, n1, n2)
    bpv = [(1, 0, 0, 0, 0, 0), (1, 1, 0, 5, 0, 2), (2, 1, 0, 2, 0, 2), (2, 2, 2, 0, 2, 0), (2, 2, 5, 2, 2, 2), (2, 1, 1, 2, 1, 2)]
    if th:
        bpv += [(2, 0, 0, 2, 0, 2), (2, 2, 3, 0, 2, 0), (1, 0, 0, 4, 0, 2), (3, 2, 2, 2, 2, 2)]
    for (U, LC, I1, I2, N1, N2) in bpv:
        for sk_, cs in (suites(tier, seed, "bpv") if th else one_suite(tier, seed, "c08bpv%d%d%d" % (U, I1, I2))):
            op("blind_proof_verify_%s_U%d_L%d_i%d_%d_n%d_%d" % (sk_, U, LC, I1, I2, N1, N2),
               "op_blind_proof_verify::<%s, %d, %d, %d, %d, %d, %d, %d>()" % (cs, U, 272 + 32 * U, LC, I1, I2, N1, N2), "G",
               dict(entry="blind_proof_verify", part="index handling", suite=sk_, U=U, L=LC, index_shapes=[I1, I2], msgs=[N1, N2]))
    bsl = [112, 113, 144]
    if th:
        bsl = sorted(set(bsl + [143, 145, 176, 177]))
    for n in bsl:
        for L in ([0, 1] if th else [pick(seed, "bsL%d" % n, [0, 1], 1)[0]]):
            for sk_, cs in one_suite(tier, seed, "c08bs%d" % n):
                op("blind_sign_%s_len%d_L%d" % (sk_, n, L), "op_blind_sign::<%s, %d, %d>()" % (cs, n, L), "G",
                   dict(entry="blind_sign", suite=sk_, commitment_len=n, L=L))
    for (L, M, UB) in [(0, 0, "false"), (1, 0, "true"), (0, 1, "true"), (1, 1, "false")] + ([(2, 1, "true"), (1, 2, "true"), (2, 2, "false"), (0, 0, "true")] if th else []):
        for sk_, cs in one_suite(tier, seed, "c08vbs%d%d" % (L, M)):
            op("verify_blind_sign_%s_L%d_M%d_%s" % (sk_, L, M, UB[0]), "op_verify_blind_sign::<%s, %d, %d, %s>()" % (cs, L, M, UB), "G",
               dict(entry="verify_blind_sign", suite=sk_, L=L, M=M, blind_factor=UB))
    for n in ([1, 47, 48, 79, 112, 144] + ([113, 143, 145, 176] if th else [])):
        for Gn in ([0, 1, 2, 3] if (th or n >= 112) else pick(seed, "dcG%d" % n, [0, 1, 2, 3], 2)):
            for sk_, cs in one_suite(tier, seed, "c08dc%d" % n):
                op("deser_commit_%s_len%d_G%d" % (sk_, n, Gn), "op_deser_commit::<%s, %d, %d>()" % (cs, n, Gn), "G",
                   dict(entry="deserialize_and_validate_commit", suite=sk_, len=n, blind_generators=Gn))
    for (L, ISH) in [(0, 0), (0, 1), (1, 0), (2, 2), (2, 3), (2, 4), (2, 5)] + ([(3, 2), (2, 0), (3, 0), (1, 5)] if th else []):
        for sk_, cs in one_suite(tier, seed, "c08pg%d%d" % (L, ISH)):
            op("proof_gen_%s_L%d_i%d" % (sk_, L, ISH), "op_proof_gen::<%s, 80, %d, %d>()" % (cs, L, ISH), "G",
               dict(entry="proof_gen", suite=sk_, sig_len=80, L=L, index_shape=ISH))
    for (L, M, I1, I2) in [(0, 0, 0, 0), (2, 1, 3, 0), (1, 2, 0, 5), (2, 2, 2, 2)] + ([(2, 2, 4, 2), (2, 2, 2, 3), (1, 2, 0, 4)] if th else []):
        for sk_, cs in one_suite(tier, seed, "c08bpg%d%d" % (L, M)):
            op("blind_proof_gen_%s_L%d_M%d_i%d_%d" % (sk_, L, M, I1, I2),
               "op_blind_proof_gen::<%s, %d, %d, %d, %d>()" % (cs, L, M, I1, I2), "G",
               dict(entry="blind_proof_gen", suite=sk_, L=L, M=M, index_shapes=[I1, I2]))
    for sk_, cs in one_suite(tier, seed, "c08up"):
        ups = [(0, 0, 0), (1, 0, 0), (1, 1, 0), (2, 1, 0), (2, 2, 0), (2, 3, 0), (1, 0, 1), (2, 0, 2)]
        if th:
            ups += [(3, 0, 0), (3, 2, 0), (3, 3, 0), (3, 4, 0), (0, 0, 1), (3, 0, 1)]
        for (N, UI, K) in ups:
            op("update_%s_n%d_ui%s" % (sk_, N, ("max%d" % (K - 1)) if K else str(UI)), "op_update::<%s, %d, false, %d, %d>()" % (cs, N, UI, K), "G",
               dict(entry="update_signature", suite=sk_, n=N, update_index=("usize::MAX-%d" % (K - 1)) if K else UI))
        op("update_%s_nmax_ui0" % sk_, "op_update::<%s, 0, true, 0, 0>()" % cs, "G",
           dict(entry="update_signature", suite=sk_, n="usize::MAX", update_index=0))
        op("update_%s_nmax_uimax" % sk_, "op_update::<%s, 0, true, 0, 1>()" % cs, "G",
           dict(entry="update_signature", suite=sk_, n="usize::MAX", update_index="usize::MAX"))
    for sk_, cs in suites(tier, seed, "c08g"):
        for N in ([0, 1, 2, 3] if th else [0, 1, 2]):
            op("generators_%s_n%d" % (sk_, N), "op_generators::<%s, %d>()" % (cs, N), "G",
               dict(entry="Generators::create", suite=sk_, count=N))
    return S


def c09(tier, seed):
    S = []
    th = tier == "thorough"
    for n in lens(tier, seed, "pk", [0, 48, 95, 96, 97, 128, 192], 192 if th else 192, extra=2):
        S.append(Spec("c09_canon_pk_l%d" % n, "c09::canon_pk::<%d>()" % n, max(100, n + 2), shape=dict(codec="PublicKey octets", len=n), replay="canon"))
    for n in lens(tier, seed, "sk", [0, 31, 32, 33, 64], 72, extra=1):
        S.append(Spec("c09_canon_sk_l%d" % n, "c09::canon_sk::<%d>()" % n, max(40, n + 2), shape=dict(codec="SecretKey octets", len=n), replay="canon"))
    S.append(Spec("c09_canon_sig", "c09::canon_sig()", 84, shape=dict(codec="Signature octets", len=80), replay="canon"))
    for sk_, cs in suites(tier, seed, "c09bs"):
        S.append(Spec("c09_canon_blind_sig_%s" % sk_, "c09::canon_blind_sig::<%s>()" % cs, 84, shape=dict(codec="BlindSignature octets", len=80), replay="canon"))
    S.append(Spec("c09_canon_blindfactor", "c09::canon_blindfactor()", 40, shape=dict(codec="BlindFactor octets", len=32), replay="canon"))
    S.append(Spec("c09_canon_coordinates", "c09::canon_coordinates()", 200, shape=dict(codec="PublicKey coordinates", len=192), replay="canon"))
    for n in lens(tier, seed, "proofc", [239, 240, 271, 272, 273, 288, 303, 304, 305, 336, 337], 400 if th else 340, extra=2):
        S.append(Spec("c09_canon_proof_l%d" % n, "c09::canon_proof::<%d>()" % n, max(100, n + 2), shape=dict(codec="PoKSignature octets (canonical framing + symbolic tail)", len=n), replay="canon"))
    for n in lens(tier, seed, "zkc", [31, 32, 63, 64, 65, 80, 95, 96, 97, 128, 129], 160, extra=1):
        S.append(Spec("c09_canon_zkpok_l%d" % n, "c09::canon_zkpok::<%d>()" % n, max(100, n + 2), shape=dict(codec="ZKPoK octets (canonical framing + symbolic tail)", len=n), replay="canon"))
    for n in lens(tier, seed, "cmc", [47, 48, 80, 111, 112, 113, 128, 143, 144, 145, 176, 177], 208, extra=1):
        S.append(Spec("c09_canon_commitment_l%d" % n, "c09::canon_commitment::<%d>()" % n, max(100, n + 2), shape=dict(codec="Commitment octets (canonical framing + symbolic tail)", len=n), replay="canon"))
    for U in ([0, 1, 2] if th else [0, 1]):
        for W in [0, 1, 2]:
            n = 272 + 32 * U
            S.append(Spec("c09_forbid_identity_proof_U%d_p%d" % (U, W), "c09::forbid_identity_proof::<%d, %d, %d>()" % (U, n, W), 100,
                          shape=dict(codec="PoKSignature octets", identity_point=["Abar", "Bbar", "D"][W], U=U), replay="canon"))
    for nm in ["rt_pk", "rt_sk", "rt_sig", "rt_blindfactor"]:
        S.append(Spec("c09_" + nm, "c09::%s()" % nm, 200, shape=dict(roundtrip=nm[3:]), replay="canon"))
    for U in ([0, 1, 2, 3] if th else [0, 1, 2]):
        n = 272 + 32 * U
        S.append(Spec("c09_rt_proof_U%d" % U, "c09::rt_proof::<%d, %d>()" % (U, n), n + 2, shape=dict(roundtrip="PoKSignature", U=U), replay="canon"))
    for M in ([0, 1, 2, 3] if th else [0, 1, 2]):
        n = 112 + 32 * M
        S.append(Spec("c09_rt_commitment_M%d" % M, "c09::rt_commitment::<%d, %d>()" % (M, n), n + 2, shape=dict(roundtrip="Commitment", M=M), replay="canon"))
    return S


def c01(tier, seed):
    S = []
    th = tier == "thorough"
    # (L, header shape 0..3, msgs None?, message-length offset)
    shapes = [(0, 0, "true", 0), (0, 1, "false", 0), (1, 2, "false", 1), (2, 0, "false", 0), (2, 3, "false", 1)]
    if th:
        shapes = [(L, H, "false", (L + H) % 3) for L in range(0, 4) for H in range(0, 4)] + [(0, 0, "true", 0), (0, 3, "true", 0)]
    for (L, H, MN, ML) in shapes:
        for sk_, cs in suites(tier, seed, "c01"):
            for kind in ("sign", "verify"):
                S.append(Spec("c01_%s_%s_L%d_h%d_%s" % (kind, sk_, L, H, MN[0]), "p01::%s_contract::<%s, %d, %d, %s, %d>()" % (kind, cs, L, H, MN, ML), 100, "G", "A",
                              shape=dict(contract=kind, suite=sk_, L=L, header_shape=H, msgs_none=MN, msg_len_offset=ML), replay="alg", features="prog"))
    return S


def c02(tier, seed):
    S = []
    th = tier == "thorough"
    shapes = [(0, 0, "true", 0), (0, 1, "false", 0), (1, 2, "false", 1), (2, 0, "false", 0), (2, 3, "false", 1)]
    if th:
        shapes = [(L, H, "false", (L + H) % 3) for L in range(0, 4) for H in range(0, 4)] + [(0, 0, "true", 0), (0, 3, "true", 0)]
    for (L, H, MN, ML) in shapes:
        for sk_, cs in suites(tier, seed, "c02"):
            S.append(Spec("c02_verify_%s_L%d_h%d_%s" % (sk_, L, H, MN[0]), "p01::verify_contract::<%s, %d, %d, %s, %d>()" % (cs, L, H, MN, ML), 100, "G", "A",
                          shape=dict(contract="verify", suite=sk_, L=L, header_shape=H, msgs_none=MN, msg_len_offset=ML), replay="alg", features="prog"))
    for (L, H, ML) in [(0, 0, 0), (1, 2, 1), (2, 1, 0)] + ([(2, 3, 1), (3, 0, 2), (1, 0, 0)] if th else []):
        for sk_, cs in (suites(tier, seed, "c02f") if th else one_suite(tier, seed, "c02f%d%d" % (L, H))):
            S.append(Spec("c02_bitflip_%s_L%d_h%d" % (sk_, L, H), "p01::bitflip_contract::<%s, %d, %d, %d>()" % (cs, L, H, ML), 100, "G", "A",
                          shape=dict(contract="bitflip", suite=sk_, L=L, header_shape=H, msg_len_offset=ML, flipped_bit="any of 640"), replay="alg", features="prog"))
    return S


def c10(tier, seed):
    S = []
    th = tier == "thorough"
    U = 120

    def u(name, call, shape, unwind=U):
        S.append(Spec("c10_" + name, "c10::" + call, unwind, "none", "A", shape=shape, replay="alg"))

    u("i2osp8_full", "i2osp8_full()", dict(unit="i2osp::<8>", x="any usize"), 20)
    u("i2osp2_full", "i2osp2_full()", dict(unit="i2osp::<2>", x="any usize <= 65535"), 20)
    for sk_, cs in suites(tier, seed, "c10"):
        for (ml, dl) in [(0, 0), (1, 3), (3, 40), (2, 255), (2, 256)] + ([(8, 100), (33, 255), (7, 254), (1, 300)] if th else []):
            u("h2s_%s_m%d_d%d" % (sk_, ml, dl), "h2s_match::<%s, %d, %d>()" % (cs, ml, dl), dict(unit="hash_to_scalar", suite=sk_, msg_len=ml, dst_len=dl), max(U, dl // 8 + 60))
        for (ikm, ki, kd) in [(31, 0, 0), (32, 0, 0), (32, 1, 1), (33, 2, 2), (32, 3, 0), (0, 0, 0)] + ([(34, 3, 2), (64, 0, 0), (32, 0, 1), (32, 2, 1), (16, 1, 1)] if th else []):
            u("keygen_%s_ikm%d_ki%d_kd%d" % (sk_, ikm, ki, kd), "keygen_match::<%s, %d, %d, %d>()" % (cs, ikm, ki, kd),
              dict(unit="KeyGen/SkToPk", suite=sk_, ikm_len=ikm, key_info_shape=ki, key_dst_shape=kd))
        u("keygen_limits_%s" % sk_, "keygen_limits::<%s>()" % cs, dict(unit="KeyGen", suite=sk_, key_info_len=65536))
        for (n, api) in [(0, 0), (1, 0), (2, 0), (2, 1), (1, 2), (1, 3)] + ([(3, 0), (3, 1), (2, 2), (2, 3), (4, 0)] if th else []):
            u("gens_%s_n%d_api%d" % (sk_, n, api), "gens_match::<%s, %d, %d>()" % (cs, n, api), dict(unit="create_generators", suite=sk_, count=n, api_id_shape=api))
        for (k1, k2) in [(1, 2), (2, 1), (1, 1)] + ([(2, 3), (0, 2), (3, 1)] if th else []):
            u("gens_history_%s_%d_%d" % (sk_, k1, k2), "gens_history::<%s, %d, %d>()" % (cs, k1, k2), dict(unit="create_generators twice", suite=sk_, first=k1, second=k2))
        for (ml, bl) in [(0, "false"), (1, "true"), (2, "false")] + ([(3, "true"), (8, "false"), (32, "true")] if th else []):
            u("m2s_%s_m%d_%s" % (sk_, ml, bl[0]), "m2s_match::<%s, %d, %s>()" % (cs, ml, bl), dict(unit="messages_to_scalar", suite=sk_, msg_len=ml, blind_api=bl))
        for m1 in [0, 1] + ([2] if th else []):
            u("blind_challenge_%s_g%d" % (sk_, m1), "blind_challenge_match::<%s, %d>()" % (cs, m1), dict(unit="calculate_blind_challenge", suite=sk_, generators=m1))
    return S


def c12(tier, seed):
    S = []
    th = tier == "thorough"
    # (n, update_index, k, old_len, new_len) with k > 0 meaning update_index = usize::MAX - (k - 1)
    ups = [(1, 0, 0, 1, 1), (2, 0, 0, 1, 2), (2, 1, 0, 2, 1), (3, 2, 0, 0, 1), (3, 1, 0, 1, 0), (1, 1, 0, 1, 1), (2, 2, 0, 1, 1), (3, 3, 0, 1, 1),
           (0, 0, 0, 1, 1), (2, 0, 1, 1, 1), (3, 0, 2, 1, 1)]
    if th:
        ups += [(3, 0, 0, 2, 2), (4, 3, 0, 1, 1), (4, 0, 0, 1, 2), (4, 2, 0, 2, 1), (4, 4, 0, 1, 1), (5, 4, 0, 1, 1), (5, 5, 0, 1, 1), (1, 0, 1, 1, 1), (0, 0, 1, 1, 1), (4, 7, 0, 1, 1), (1, 0, 0, 0, 2), (1, 0, 0, 2, 0)]
    for (N, UI, K, OL, NL) in ups:
        for sk_, cs in (suites(tier, seed, "c12") if th else one_suite(tier, seed, "c12%d%d%d" % (N, UI, K))):
            nm = ("max%d" % (K - 1)) if K else str(UI)
            S.append(Spec("c12_update_%s_n%d_ui%s_o%d_w%d" % (sk_, N, nm, OL, NL), "c12::update_contract::<%s, %d, %d, %d, %d, %d>()" % (cs, N, UI, K, OL, NL), 120, "G", "A",
                          shape=dict(contract="update_signature one-step", entry="update_signature", suite=sk_, n=N, update_index=("usize::MAX-%d" % (K - 1)) if K else UI, old_len=OL, new_len=NL), replay="op",
                          covers_required=(K == 0 and UI < N), features="prog"))
    return S


def c03_specs(tier, seed, edits, tag):
    S = []
    th = tier == "thorough"
    # (L, disclosed mask, permutation, header shape, ph shape)
    # shapes with at most ONE undisclosed message: with two or more the T2 identity does not close within the caps
    base = [(0, 0, 0, 0, 0), (1, 0, 0, 2, 2), (1, 1, 0, 0, 1), (2, 1, 1, 2, 0), (2, 2, 2, 0, 2), (2, 3, 1, 3, 3), (3, 5, 0, 0, 0), (3, 3, 1, 1, 1)]
    if th:
        base = [(L, m, (L + m) % 3, (L + m) % 4, (2 * L + m) % 4) for L in range(0, 4) for m in range(0, 1 << L) if L - bin(m).count('1') <= 1]
    for (L, M, P, H, PHs) in base:
        for E in edits:
            if E in (1, 4) and M == 0:
                continue  # needs a disclosed message
            if E == 4 and M == (1 << L) - 1:
                continue  # needs an undisclosed position
            if E == 2 and H < 2:
                continue  # edited header is compared with a non-empty original
            if E == 3 and PHs < 2:
                continue
            for sk_, cs in (suites(tier, seed, tag) if th else one_suite(tier, seed, "%s%d%d%d" % (tag, L, M, E))):
                S.append(Spec("%s_proof_%s_L%d_d%d_p%d_h%d_ph%d_e%d" % (tag, sk_, L, M, P, H, PHs, E),
                              "p03::proof_flow::<%s, %d, %d, %d, %d, %d, %d, %d>()" % (cs, L, M, P, H, PHs, E, L % 3), 100, "G", "A",
                              shape=dict(contract="proof_gen -> proof_verify", suite=sk_, L=L, disclosed_mask=M, index_presentation=P, header_shape=H, ph_shape=PHs, edit=E),
                              replay="alg", features="fixedrand"))
    return S


def c03(tier, seed):
    return c03_specs(tier, seed, [0], "c03")


def c04(tier, seed):
    S = c03_specs(tier, seed, [1, 2, 3, 4, 5], "c04")
    # single-bit flips of the payload octet of every segment of the encoded proof
    th = tier == "thorough"
    for (L, M, H, PHs) in [(1, 0, 2, 0), (2, 3, 0, 2)] + ([(1, 1, 0, 0), (2, 1, 1, 1)] if th else []):
        U = L - bin(M).count("1")
        for seg in range(0, 7 + U):
            for sk_, cs in (suites(tier, seed, "c04f") if th else one_suite(tier, seed, "c04f%d%d%d" % (L, M, seg))):
                S.append(Spec("c04_flip_%s_L%d_d%d_seg%d" % (sk_, L, M, seg),
                              "p03::proof_flow::<%s, %d, %d, 0, %d, %d, %d, %d>()" % (cs, L, M, H, PHs, 100 + seg, L % 3), 100, "G", "A",
                              shape=dict(contract="proof_gen -> proof_verify", suite=sk_, L=L, disclosed_mask=M, index_presentation=0, header_shape=H, ph_shape=PHs, edit="bit flip in segment %d" % seg),
                              replay="alg", features="fixedrand"))
    return S


def c05_specs(tier, seed, edits, tag):
    S = []
    th = tier == "thorough"
    # (2, 1) does not close within 1500 s and is therefore not registered
    shapes = [(0, 0, 0), (1, 0, 2), (0, 1, 1)] + ([(1, 1, 2), (1, 2, 3), (0, 2, 2)] if th else [])
    for (L, M, H) in shapes:
        for E in edits:
            segs = [0]
            if E == 1:
                segs = [0, 1, M + 2] + ([2] if M >= 1 else [])
            if E == 2 and M == 0:
                continue
            if E == 5 and L == 0:
                continue
            if E == 4 and H < 2:
                continue
            for SG in segs:
                for sk_, cs in (suites(tier, seed, tag) if th else one_suite(tier, seed, "%s%d%d%d%d" % (tag, L, M, E, SG))):
                    S.append(Spec("%s_issue_%s_L%d_M%d_h%d_e%d_s%d" % (tag, sk_, L, M, H, E, SG),
                                  "p05::issuance_flow::<%s, %d, %d, %d, %d, %d, %d>()" % (cs, L, M, H, E, SG, 112 + 32 * M), 100, "G", "A",
                                  shape=dict(contract="commit -> blind_sign -> verify_blind_sign", suite=sk_, L=L, M=M, header_shape=H, edit=E, segment=SG),
                                  replay="alg", features="fixedrand"))
    return S


def bproof_specs(tier, seed, edits, tag):
    S = []
    th = tier == "thorough"
    for (L, M, H) in [(0, 0, 0), (1, 0, 2), (0, 1, 1), (1, 1, 0)] + ([(2, 1, 2), (1, 2, 3)] if th else []):
        for E in edits:
            if E == 2 and L == 0:
                continue
            if E == 3 and M == 0:
                continue
            if E == 4 and (L == M):
                continue
            for sk_, cs in (suites(tier, seed, tag) if th else one_suite(tier, seed, "%sp%d%d%d" % (tag, L, M, E))):
                S.append(Spec("%s_bproof_%s_L%d_M%d_h%d_e%d" % (tag, sk_, L, M, H, E), "p05::blind_proof_flow::<%s, %d, %d, %d, %d>()" % (cs, L, M, H, E), 100, "G", "A",
                              shape=dict(contract="blind_proof_gen -> blind_proof_verify", suite=sk_, L=L, M=M, header_shape=H, edit=E, disclosed="all"),
                              replay="alg", features="fixedrand"))
    return S


def c05(tier, seed):
    return c05_specs(tier, seed, [0], "c05") + bproof_specs(tier, seed, [0], "c05")


def c06(tier, seed):
    # blind-proof edits that re-assign generators (wrong signer-message count, swapped index lists) are not
    # registered: in the model group the generators are known multiples of one element, so the solver finds
    # scalar coincidences that make the verifier's challenge input equal (a false alarm in the model; in the
    # real group it needs a discrete-log relation between generators)
    S = c05_specs(tier, seed, [1, 2, 3, 4, 5], "c06") + bproof_specs(tier, seed, [3], "c06")
    for n in [80, 96, 111] + ([48, 79, 113, 127, 143] if tier == "thorough" else []):
        for sk_, cs in one_suite(tier, seed, "c06m%d" % n):
            S.append(Spec("c06_malformed_commitment_%s_len%d" % (sk_, n), "p05::malformed_commitment_refused::<%s, %d, 1>()" % (cs, n), 100, "G", "A",
                          shape=dict(contract="blind_sign refuses malformed commitment", entry="blind_sign", suite=sk_, commitment_len=n, L=1), replay="op", features="fixedrand"))
    return S


def c07(tier, seed):
    S = []
    th = tier == "thorough"
    for (L, M, SEC) in [(0, 0, "false"), (1, 0, "false"), (1, 1, "false"), (2, 1, "false"), (1, 0, "true"), (2, 2, "true")] + ([(2, 0, "false"), (3, 5, "false"), (2, 1, "true"), (3, 3, "false")] if th else []):
        for sk_, cs in (suites(tier, seed, "c07") if th else one_suite(tier, seed, "c07%d%d" % (L, M))):
            S.append(Spec("c07_proof_roles_%s_L%d_d%d_%s" % (sk_, L, M, SEC[0]), "p07::proof_roles::<%s, %d, %d, %s>()" % (cs, L, M, SEC), 100, "G", "A",
                          shape=dict(contract="proof_gen draw roles", suite=sk_, L=L, disclosed_mask=M, two_generations=SEC), replay="alg", features="fixedrand"))
    # commitment roles and draw counts are asserted inside the C05 issuance flow (p05): reuse its honest shapes
    for sp in c05_specs(tier, seed, [0], "c07c"):
        S.append(sp)
    return S


def c11(tier, seed):
    """domain separation: (1) the api_id constants are prefix-free; (2) every oracle query of the sign / verify /
    proof / blind flows carries a DST starting with the calling interface's api_id (assertions inside the flow
    harnesses, re-registered here); (3) generator creation under the plain, blind and BLIND_-prefixed ids equals the
    reference and does not depend on the request history (units shared with C10)."""
    S = [Spec("c11_api_ids_separate", "c10::api_ids_separate()", 120, "none", "A", shape=dict(unit="api_id constants"), replay="alg")]
    import copy
    def take(specs, keep, tag):
        out = []
        for sp in specs:
            if keep(sp):
                sp2 = copy.copy(sp)
                sp2.name = "c11_" + sp.name
                out.append(sp2)
        return out
    S += take(c01(tier, seed), lambda sp: "_L1_" in sp.name or "_L2_h0" in sp.name, "c01")
    S += take(c03(tier, seed), lambda sp: "_L1_d1" in sp.name or "_L2_d1" in sp.name, "c03")
    # a plain proof presented to the blind verifier with L absent (edit 6)
    S += take(c03_specs(tier, seed, [6], "c11x"), lambda sp: "_L1_" in sp.name or "_L2_d3" in sp.name or "_L0_" in sp.name, "x")
    S += take(c05_specs(tier, seed, [0], "c05"), lambda sp: True, "c05")
    S += take(bproof_specs(tier, seed, [0], "c05"), lambda sp: "_L1_M1" in sp.name or "_L0_M1" in sp.name, "c05")
    S += take(c10(tier, seed), lambda sp: "_gens_" in sp.name, "c10")
    return S


PROPS = {"C01": c01, "C05": c05, "C11": c11, "C07": c07, "C06": c06, "C02": c02, "C03": c03, "C04": c04, "C08": c08, "C09": c09, "C10": c10, "C12": c12}
