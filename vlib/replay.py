"""Transport of a solver counterexample to the real build (real bls12_381_plus / SHA / SHAKE).

1. Kani concrete playback turns the satisfying assignment into a unit test (inserted into the
   generated harness file of the per-property workspace copy);
2. `cargo kani playback` runs that test natively against the model crates: the harness prints
   TRANSPORT lines describing the counterexample, and the native run tells whether the failure is a
   CBMC artefact;
3. /verif/replay (real dependencies, /repo as path dependency) re-instantiates the counterexample
   and re-evaluates the property on the real crate."""
import json, os, re, subprocess, time
from . import runner

VERIF = runner.VERIF
REPLAY_DIR = os.path.join(VERIF, "replay")


def _env():
    env = dict(os.environ)
    env["CARGO_NET_OFFLINE"] = "true"
    env.pop("RUSTFLAGS", None)
    return env


def build_replay_tool():
    lock = os.path.join(REPLAY_DIR, "Cargo.lock")
    if not os.path.exists(lock):
        import shutil
        shutil.copy("/repo/Cargo.lock", lock)
    p = subprocess.run(["cargo", "build", "--offline", "-q"], cwd=REPLAY_DIR, env=_env(),
                       stdout=subprocess.PIPE, stderr=subprocess.STDOUT)
    if p.returncode != 0:
        return None, p.stdout.decode(errors="replace")[-2000:]
    return os.path.join(REPLAY_DIR, "target", "debug", "zkreplay"), ""


def run_real(transport_text, timeout=40):
    exe, err = build_replay_tool()
    if exe is None:
        return dict(reproduced=None, reason="real replay tool does not build: " + err)
    try:
        p = subprocess.run([exe], input=transport_text.encode(), stdout=subprocess.PIPE,
                           stderr=subprocess.PIPE, timeout=timeout)
    except subprocess.TimeoutExpired:
        m = re.search(r"TRANSPORT entry=\"?([\w:]+)", transport_text)
        ent = m.group(1) if m else "?"
        return dict(reproduced=True, key="%s:unbounded-work" % ent,
                    detail="real build did not return within %ds on the transported input" % timeout)
    out = p.stdout.decode(errors="replace")
    m = re.search(r"REPLAY reproduced=(true|false) key=(\S+) detail=(.*)", out)
    if not m:
        # the process died (abort, stack overflow, OOM): also a crash of the real build
        if p.returncode != 0:
            return dict(reproduced=True, key="process-abort", detail="real replay process exited %d: %s" % (
                p.returncode, p.stderr.decode(errors="replace")[-300:]))
        return dict(reproduced=None, reason="no REPLAY line: " + out[-300:])
    return dict(reproduced=(m.group(1) == "true"), key=m.group(2), detail=m.group(3))


def playback(spec, ws):
    """returns (transport_text, native_failed, log)"""
    cmd = ["cargo", "kani", "-Z", "stubbing", "-Z", "unstable-options", "-Z", "concrete-playback",
           "--concrete-playback=inplace", "--exact", "--harness", "h::generated::" + spec.name]
    cmd += [f for f in runner.GROUP_FLAGS[spec.group] if f != "--no-assertion-reach-checks"]
    cmd += runner.CBMC_ARGS
    p = subprocess.run(cmd, cwd=ws, stdout=subprocess.PIPE, stderr=subprocess.STDOUT, env=_env(),
                       timeout=(spec.timeout or 900) + 600)
    txt = p.stdout.decode(errors="replace")
    m = re.search(r"- (kani_concrete_playback_%s_\d+)" % re.escape(spec.name), txt)
    if not m:
        # maybe it already exists in the file
        gen = open(os.path.join(ws, "src", "h", "generated.rs")).read()
        m2 = re.search(r"fn (kani_concrete_playback_%s_\d+)" % re.escape(spec.name), gen)
        if not m2:
            return None, None, txt[-1500:]
        test = m2.group(1)
    else:
        test = m.group(1)
    p2 = subprocess.run(["cargo", "kani", "playback", "-Z", "concrete-playback", "-Z", "stubbing", "--",
                         test, "--nocapture"], cwd=ws, stdout=subprocess.PIPE, stderr=subprocess.STDOUT,
                        env=_env(), timeout=900)
    out = p2.stdout.decode(errors="replace")
    lines = [l.strip() for l in out.splitlines() if l.strip().startswith("TRANSPORT ")]
    native_failed = ("test result: FAILED" in out) or ("panicked at" in out)
    return "\n".join(lines), native_failed, out[-1500:]


def transport(pid, spec, result, ws):
    try:
        tt, native_failed, log = playback(spec, ws)
    except subprocess.TimeoutExpired:
        return dict(reproduced=None, reason="concrete playback timed out")
    if tt is None:
        return dict(reproduced=None, reason="no concrete playback test generated", log=log)
    if not tt:
        return dict(reproduced=None, reason="harness emitted no TRANSPORT lines", native_model_replay_failed=native_failed, log=log)
    r = run_real(tt)
    r["native_model_replay_failed"] = native_failed
    r["transport"] = tt.splitlines()
    return r


def match_known(known, pid, tr):
    for k in known:
        if k.get("property") == pid and k.get("status") == "known" and k.get("key") == tr.get("key"):
            return k
    return None


def replay_file(path):
    body = json.load(open(path))
    tr = (body.get("transport") or {}).get("transport")
    if not tr:
        print("replay file carries no transport lines")
        return 2
    r = run_real("\n".join(tr))
    print(json.dumps(r, indent=1))
    if r.get("reproduced") is True:
        print("VIOLATION property=%s replay=%s" % (body.get("property"), path))
        return 1
    return 0
