"""Transport of a solver counterexample to the real build (real bls12_381_plus / SHA / SHAKE).

1. Kani concrete playback turns the satisfying assignment into a unit test (inserted into the
   generated harness file of the per-property workspace copy);
2. `cargo kani playback` runs that test natively against the model crates: the harness prints
   TRANSPORT lines describing the counterexample, and the native run tells whether the failure is a
   CBMC artefact;
3. /verif/replay (real dependencies, /repo as path dependency) re-instantiates the counterexample
   and re-evaluates the property on the real crate."""
import json, os, re, subprocess, time
from . import runner

VERIF = runner.VERIF
REPLAY_DIR = os.path.join(VERIF, "replay")


def _env():
    env = dict(os.environ)
    env["CARGO_NET_OFFLINE"] = "true"
    env.pop("RUSTFLAGS", None)
    return env


import threading
_BUILD_LOCK = threading.Lock()


def build_replay_tool():
    with _BUILD_LOCK:
        return _build_replay_tool()


def _build_replay_tool():
    global REPLAY_DIR
    repo = os.environ.get("VERIF_REPO", "/repo")
    if repo != "/repo":
        # mutation experiments: private copy of the replay crate pointing at the scratch worktree
        alt = os.path.join(VERIF, "work", "replay" + os.environ.get("VERIF_WORKTAG", ""))
        subprocess.run(["rsync", "-a", "--exclude", "target", os.path.join(VERIF, "replay") + "/", alt + "/"], check=True)
        ct = open(os.path.join(alt, "Cargo.toml")).read().replace('path = "/repo"', 'path = "%s"' % repo)
        open(os.path.join(alt, "Cargo.toml"), "w").write(ct)
        mr = open(os.path.join(alt, "src", "main.rs")).read().replace('#[path = "../../harness/src/reference.rs"]', '#[path = "%s/harness/src/reference.rs"]' % VERIF)
        open(os.path.join(alt, "src", "main.rs"), "w").write(mr)
        REPLAY_DIR = alt
    lock = os.path.join(REPLAY_DIR, "Cargo.lock")
    if not os.path.exists(lock):
        import shutil
        shutil.copy("/repo/Cargo.lock", lock)
    p = subprocess.run(["cargo", "build", "--offline", "-q"], cwd=REPLAY_DIR, env=_env(),
                       stdout=subprocess.PIPE, stderr=subprocess.STDOUT)
    if p.returncode != 0:
        return None, p.stdout.decode(errors="replace")[-2000:]
    return os.path.join(REPLAY_DIR, "target", "debug", "zkreplay"), ""


def run_real(transport_text, timeout=40):
    exe, err = build_replay_tool()
    if exe is None:
        return dict(reproduced=None, reason="real replay tool does not build: " + err)
    try:
        p = subprocess.run([exe], input=transport_text.encode(), stdout=subprocess.PIPE,
                           stderr=subprocess.PIPE, timeout=timeout)
    except subprocess.TimeoutExpired:
        m = re.search(r"TRANSPORT entry=\"?([\w:]+)", transport_text)
        ent = m.group(1) if m else "?"
        return dict(reproduced=True, key="%s:unbounded-work" % ent,
                    detail="real build did not return within %ds on the transported input" % timeout)
    out = p.stdout.decode(errors="replace")
    m = re.search(r"REPLAY reproduced=(true|false) key=(\S+) detail=(.*)", out)
    if not m:
        # the process died (abort, stack overflow, OOM): also a crash of the real build
        if p.returncode != 0:
            return dict(reproduced=True, key="process-abort", detail="real replay process exited %d: %s" % (
                p.returncode, p.stderr.decode(errors="replace")[-300:]))
        return dict(reproduced=None, reason="no REPLAY line: " + out[-300:])
    return dict(reproduced=(m.group(1) == "true"), key=m.group(2), detail=m.group(3))


def playback(spec, ws, cap=420):
    """returns (transport_text, native_failed, log)"""
    cmd = ["cargo", "kani", "-Z", "stubbing", "-Z", "unstable-options", "-Z", "concrete-playback",
           "--concrete-playback=inplace", "--exact", "--harness", "h::generated::" + spec.name]
    cmd += [f for f in runner.GROUP_FLAGS[spec.group] if f != "--no-assertion-reach-checks"]
    cmd += runner.CBMC_ARGS
    p = subprocess.run(cmd, cwd=ws, stdout=subprocess.PIPE, stderr=subprocess.STDOUT, env=_env(),
                       timeout=cap)
    txt = p.stdout.decode(errors="replace")
    m = re.search(r"- (kani_concrete_playback_%s_\d+)" % re.escape(spec.name), txt)
    if not m:
        # maybe it already exists in the file
        gen = open(os.path.join(ws, "src", "h", "generated.rs")).read()
        m2 = re.search(r"fn (kani_concrete_playback_%s_\d+)" % re.escape(spec.name), gen)
        if not m2:
            return None, None, txt[-1500:]
        test = m2.group(1)
    else:
        test = m.group(1)
    p2 = subprocess.run(["cargo", "kani", "playback", "-Z", "concrete-playback", "-Z", "stubbing", "--",
                         test, "--nocapture"], cwd=ws, stdout=subprocess.PIPE, stderr=subprocess.STDOUT,
                        env=_env(), timeout=900)
    out = p2.stdout.decode(errors="replace")
    lines = [l.strip() for l in out.splitlines() if l.strip().startswith("TRANSPORT ")]
    native_failed = ("test result: FAILED" in out) or ("panicked at" in out)
    return "\n".join(lines), native_failed, out[-1500:]


PLAYBACK_CAP_S = int(os.environ.get("VERIF_PLAYBACK_CAP", "420"))
UMAX = 18446744073709551615


def _model_g1(v=3):
    return [0x80] + [0] * 46 + [v]


def _model_scalar(v=7):
    return [0] * 30 + [1, v]


def _fmt(v):
    if v is None:
        return "None"
    if isinstance(v, (list, tuple)):
        return "[" + ", ".join(str(x) for x in v) + "]"
    return str(v)


def _idx(shape, cand, lim):
    return {0: [], 1: [cand], 2: [0, 1], 3: [1, 0], 4: [0, 0], 5: [0, UMAX]}.get(shape, [cand, lim])


def shape_candidates(spec):
    """Fallback when the solver's assignment cannot be extracted in time (Kani's concrete playback of
    a heavy harness takes tens of minutes): concrete inputs are derived from the failing query's SHAPE
    (all its concrete parts literally) with boundary values for the symbolic parts; each candidate is
    run on the real build and only a reproducing one is reported."""
    sh = spec.shape
    ent = sh.get("entry")
    def num(v):
        if isinstance(v, int):
            return v
        v = str(v)
        if v.startswith("usize::MAX-"):
            return UMAX - int(v.split("-")[1])
        return UMAX if "MAX" in v else 0
    if str(sh.get("contract", "")).startswith("update_signature"):
        ol, nl = sh.get("old_len", 1), sh.get("new_len", 1)
        c = []
        for (o, w) in (([1] * ol, [2] * nl), ([1] * ol, ([1] * nl) if nl else []), ([3] * ol, [3] * min(ol, nl) + [4] * max(0, nl - ol))):
            c.append({"kind": "update", "suite": sh.get("suite", "sha"), "n": num(sh.get("n", 0)), "ui": num(sh.get("update_index", 0)), "old": o, "new": w})
        return ["\n".join("TRANSPORT %s=%s" % (k, _fmt(v)) for k, v in x.items()) for x in c]
    if sh.get("contract") in ("sign", "verify", "bitflip"):
        L = sh.get("L", 0)
        off = sh.get("msg_len_offset", 0)
        msgs = [[7 + i] * ((i + off) % 3) for i in range(L)]
        hs = sh.get("header_shape", 0)
        hdr = "None" if hs == 0 else "Some([%s])" % ", ".join(str(9 + j) for j in range(max(0, hs - 1)))
        x = {"kind": "sigflow", "suite": sh.get("suite", "sha"), "msgs": "[" + ", ".join(_fmt(m) for m in msgs) + "]", "hdr": hdr, "msgs_none": sh.get("msgs_none", "false")}
        return ["\n".join("TRANSPORT %s=%s" % (k, v if isinstance(v, str) else _fmt(v)) for k, v in x.items())]
    def hshape(hs):
        return "None" if hs == 0 else "Some([%s])" % ", ".join(str(9 + j) for j in range(max(0, hs - 1)))
    def nested(ms):
        return "[" + ", ".join(_fmt(m) for m in ms) + "]"
    if str(sh.get("contract", "")).startswith("proof_gen"):
        L = sh.get("L", 0)
        mask = sh.get("disclosed_mask", 0)
        idx = [i for i in range(L) if (mask >> i) & 1]
        if sh.get("index_presentation") == 1:
            idx = idx[::-1]
        elif sh.get("index_presentation") == 2 and idx:
            idx = idx + [idx[0]]
        msgs = [[7 + i] * ((i + L % 3) % 3) for i in range(L)]
        x = {"kind": "proofflow", "suite": sh.get("suite", "sha"), "msgs": nested(msgs), "hdr": hshape(sh.get("header_shape", 0)),
             "ph": hshape(sh.get("ph_shape", 0)), "idx": _fmt(idx), "edit": sh.get("edit", 0)}
        return ["\n".join("TRANSPORT %s=%s" % (k, v) for k, v in x.items())]
    if str(sh.get("contract", "")).startswith("blind_proof_gen"):
        L, M = sh.get("L", 0), sh.get("M", 0)
        x = {"kind": "blindproofflow", "suite": sh.get("suite", "sha"), "msgs": nested([[7 + i] * ((i + 1) % 3) for i in range(L)]),
             "cmsgs": nested([[3 + i] * ((i + 2) % 3) for i in range(M)]), "hdr": hshape(sh.get("header_shape", 0))}
        return ["\n".join("TRANSPORT %s=%s" % (k, v) for k, v in x.items())]
    if str(sh.get("contract", "")).startswith("blind_sign refuses"):
        n = sh.get("commitment_len", 0)
        b = []
        if n >= 48:
            b = _model_g1()
            while len(b) + 32 <= n:
                b += _model_scalar()
        b += [1] * (n - len(b))
        x = {"kind": "op", "entry": "blind_sign", "suite": sh.get("suite", "sha"), "pk": 5, "commitment": _fmt(b), "msgs": _fmt([1] * sh.get("L", 0)), "hdr": "None", "expect_err": "true"}
        return ["\n".join("TRANSPORT %s=%s" % (k, v) for k, v in x.items())]
    if str(sh.get("contract", "")).startswith("commit ->"):
        L, M = sh.get("L", 0), sh.get("M", 0)
        x = {"kind": "blindflow", "suite": sh.get("suite", "sha"), "msgs": nested([[7 + i] * ((i + 1) % 3) for i in range(L)]),
             "cmsgs": nested([[3 + i] * ((i + 2) % 3) for i in range(M)]), "hdr": hshape(sh.get("header_shape", 0))}
        return ["\n".join("TRANSPORT %s=%s" % (k, v) for k, v in x.items())]
    if not ent or spec.replay != "op":
        return []
    base = {"kind": "op", "entry": ent, "suite": sh.get("suite", "sha"), "pk": 5,
            "sig": _model_g1() + _model_scalar(), "hdr": "None", "ph": "None"}
    out = []
    def proof(U):
        return _model_g1(3) + _model_g1(4) + _model_g1(5) + sum([_model_scalar(9 + j) for j in range(4 + U)], [])
    if ent == "verify":
        out.append(dict(base, msgs=[1] * sh.get("L", 0)))
    elif ent == "proof_verify":
        U = sh.get("U", 0)
        for cand in (0, U + 2, UMAX, UMAX - 1):
            out.append(dict(base, proof=proof(U), msgs=[1] * sh.get("msgs", 0), idx=_idx(sh.get("index_shape", 0), cand, 1)))
    elif ent == "blind_proof_verify" and "R1" in sh:
        U, R1, R2 = sh.get("U", 0), sh.get("R1", 0), sh.get("R2", 0)
        ls = ["None"] if sh.get("L") == "None" else ["Some(%d)" % v for v in (U + R1 + R2, U + R1 + R2 + 1, 1, UMAX, 0)]
        for l in ls:
            out.append(dict(base, proof=proof(U), msgs=[1] * R1, cmsgs=[2] * R2, idx=list(range(R1)), idx2=list(range(R2)), L=l))
    elif ent == "blind_proof_verify":
        U = sh.get("U", 0)
        i1, i2 = sh.get("index_shapes", [0, 0])
        n1, n2 = sh.get("msgs", [0, 0])
        for cand in (0, UMAX, U + 3):
            out.append(dict(base, proof=proof(U), msgs=[1] * n1, cmsgs=[2] * n2, idx=_idx(i1, cand, 1), idx2=_idx(i2, cand, 1), L="Some(%d)" % sh.get("L", 0)))
    elif ent in ("blind_sign", "deserialize_and_validate_commit"):
        n = sh.get("commitment_len", sh.get("len", 0))
        b = []
        if n >= 48:
            b = _model_g1()
            while len(b) + 32 <= n:
                b += _model_scalar()
        b += [1] * (n - len(b))
        out.append(dict(base, commitment=b, msgs=[1] * sh.get("L", 0), G=sh.get("blind_generators", 0)))
    elif ent == "verify_blind_sign":
        out.append(dict(base, msgs=[1] * sh.get("L", 0), cmsgs=[2] * sh.get("M", 0), bf=_model_scalar(), use_bf=str(sh.get("blind_factor", "false"))))
    elif ent == "proof_gen":
        for cand in (0, sh.get("L", 0), UMAX):
            out.append(dict(base, msgs=[1] * sh.get("L", 0), idx=_idx(sh.get("index_shape", 0), cand, 1)))
    elif ent == "blind_proof_gen":
        i1, i2 = sh.get("index_shapes", [0, 0])
        for cand in (0, UMAX, 7):
            out.append(dict(base, msgs=[1] * sh.get("L", 0), cmsgs=[2] * sh.get("M", 0), idx=_idx(i1, cand, 1), idx2=_idx(i2, cand, 1)))
    elif ent == "update_signature":
        def num(v):
            if isinstance(v, int):
                return v
            v = str(v)
            if v.startswith("usize::MAX-"):
                return UMAX - int(v.split("-")[1])
            return UMAX if "MAX" in v else 0
        out.append(dict(base, old=[1], new=[2], ui=num(sh.get("update_index", 0)), n=num(sh.get("n", 0))))
    elif ent == "Generators::create":
        out.append(dict(base, entry="generators", count=sh.get("count", 0)))
    return ["\n".join("TRANSPORT %s=%s" % (k, _fmt(v)) for k, v in c.items()) for c in out]


def transport(pid, spec, result, ws):
    tt = None
    note = None
    try:
        old_cap = spec.timeout
        spec_timeout_backup = spec.timeout
        tt, native_failed, log = playback(spec, ws, cap=PLAYBACK_CAP_S)
    except subprocess.TimeoutExpired:
        tt, native_failed, log = None, None, ""
        note = "Kani concrete playback exceeded %ds" % PLAYBACK_CAP_S
    if tt:
        r = run_real(tt)
        r["native_model_replay_failed"] = native_failed
        r["transport"] = tt.splitlines()
        r["values_from"] = "solver assignment (Kani concrete playback)"
        return r
    # fallback: boundary candidates derived from the failing shape
    cands = shape_candidates(spec)
    last = None
    for c in cands:
        r = run_real(c)
        last = r
        if r.get("reproduced") is True:
            r["transport"] = c.splitlines()
            r["values_from"] = "shape of the failing query + boundary values (%s)" % (note or "no solver assignment extracted")
            return r
    if last is not None:
        last["transport"] = cands[-1].splitlines()
        last["values_from"] = "shape candidates, none reproduced (%s)" % (note or "no playback values")
        return last
    return dict(reproduced=None, reason=note or "no concrete playback test generated and no shape candidates", log=(log or "")[-600:])


def match_known(known, pid, tr):
    for k in known:
        if k.get("property") == pid and k.get("status") == "known" and k.get("key") == tr.get("key"):
            return k
    return None


def replay_file(path):
    body = json.load(open(path))
    tr = (body.get("transport") or {}).get("transport")
    if not tr:
        print("replay file carries no transport lines")
        return 2
    r = run_real("\n".join(tr))
    print(json.dumps(r, indent=1))
    if r.get("reproduced") is True:
        print("VIOLATION property=%s replay=%s" % (body.get("property"), path))
        return 1
    return 0
