"""Writes /verif/MANIFEST.json from the tables below (run: python3 -m vlib.manifest)."""
import json, os
from .props import PROPS

VERIF = os.path.dirname(os.path.dirname(os.path.abspath(__file__)))

LEVEL_TEXT = {
    "C08": "Bounded model checking (Kani/CBMC, SAT-decided) of the real decoders and entry points compiled from /repo: for each stated shape every octet content, every index value and every declared count is symbolic, and the checked condition is the absence of panics, arithmetic overflow, out-of-range indexing and unbounded generator requests. A pass is a bounded guarantee for the listed shapes, not a proof for all lengths.",
    "C09": "Bounded model checking of the real encode/decode functions: for every symbolic octet string of each stated length, acceptance implies that re-encoding reproduces the input exactly and that no forbidden identity/zero value is inside; for every symbolic object value of the stated shapes decode(encode(x)) == x.",
}
LEVEL_TEXT["C10"] = "Bounded model checking of the real deterministic building blocks (I2OSP at full 64-bit width, hash_to_scalar, KeyGen/SkToPk with its size limits, create_generators, messages_to_scalar, blind challenge) against an independent transcription of the drafts that is itself validated on all fixture files with the real crates: equality of outputs for every symbolic input of the stated small shapes. The composite operations (sign, proofs, verifiers) and thread interleavings are NOT covered by this check."
LEVEL_TEXT["C12"] = "Bounded model checking of the real update_signature as a one-step inductive contract: for an arbitrary decodable signature (A, e), any key, any old/new octet and each concrete (n, position) shape, the result keeps e and satisfies A'(sk+e) = A(sk+e) - H_i*old + H_i*new, and out-of-range positions (up to usize::MAX) are refused without panic. By induction this gives the statement for update histories of any length; the chain itself is not executed."
LEVEL_TEXT["C01"] = "Bounded model checking of the real sign and verify with a PROGRAMMED random oracle (every expand_message answer is a free symbolic value): sign returns Ok with e = the oracle's answer to the e-query and A(sk+e) = P1 + Q1*domain + sum H_i*m_i, survives its 80-octet encoding, and makes exactly the queries (count, message and DST lengths) the draft prescribes; verify accepts an ARBITRARY decodable (A, e) iff A(sk+e) = B. Completeness follows by composing the two contracts; None/empty header and message list take the same path (same query lengths)."
LEVEL_TEXT["C02"] = "Bounded model checking of the real verify: the accept <=> A(sk+e) = B(pk, header, all messages) equivalence for arbitrary (A, e), sk and oracle answers (so any edit that changes an oracle query or a message scalar changes B by a non-zero multiple of a generator), plus, for an arbitrary valid signature, every one of the 640 single-bit flips of its encoding (symbolic bit index) is refused by the decoder or by verify. The domain input is compared octet for octet with the draft's (it contains PK, L, Q1, H_i, api_id, header), so another public key, another ciphersuite or the blind interface change the domain query; that the verifier then rejects is the verify equivalence plus the random-oracle assumption (exactly one domain answer satisfies the equation), not an executed cross run."
LEVEL_TEXT["C03"] = "Bounded model checking of the real proof_gen followed by the real proof_verify in one query, with a programmed random oracle: for an arbitrary valid signature over symbolic message scalars and domain, every disclosure subset of the stated shapes in ascending, descending and duplicated presentation, proof generation succeeds, makes the prescribed oracle queries, the proof has 272 + 32*U octets, the prover's challenge input equals, octet for octet, the draft's input computed independently from the signature, the programmed scalars and the draw table (R, (i, m_i)*, Abar, Bbar, D, T1, T2, domain, ph), the verifier hashes exactly the same input and accepts. The encode/decode round trip of proofs is C09 (rt_proof)."
LEVEL_TEXT["C04"] = "Same flow as C03 with one edit between prover and verifier (disclosed message replaced, header replaced, presentation header replaced, disclosed index moved): the verifier's challenge input provably differs from the prover's, and the verifier accepts only if an independent oracle answer coincides with the transmitted challenge (probability 1/r for a random oracle). Additional edits: a surplus never-signed disclosed message is refused; every single-bit flip of the payload octet of every segment (Abar, Bbar, D, e^, r1^, r3^, m^_j, challenge) of the canonically re-framed honest proof changes the verifier's challenge input and is accepted only if an independent answer equals the transmitted challenge. Identity-point proofs are refused by the decoder (C09 forbid_identity_proof). Forgery families without a signature, the serde path, other public key and flips of framing octets (C09) are NOT decided here."
LEVEL_TEXT["C05"] = "Bounded model checking of the real commit -> to_bytes -> blind_sign -> verify_blind_sign chain and of blind_proof_gen -> blind_proof_verify, each in one query with a programmed random oracle and a fixed draw table: commit succeeds and draws M+2 scalars, its challenge input equals the draft's octets (M, Q2, J_i, C, Cbar computed from the draw table), the signer recomputes exactly the prover's commitment-challenge input (captured octets), issues (A, e) with A(sk+e) = P1 + Q1*domain + sum H_i m_i + Q2*blind + sum J_j cm_j, the holder's verification accepts; blind proofs with all messages disclosed verify and the verifier hashes the prover's challenge input (index translation j + L + 1, M = U + R - L - 1)."
LEVEL_TEXT["C06"] = "Same chains with one edit: a flipped payload bit in any segment of the serialized commitment (C, s^, m^_i, challenge) makes blind_sign refuse unless an independent oracle answer equals the transmitted challenge (probability 1/r); verify_blind_sign rejects (exactly) an altered committed message, blinding factor, header or signer message; a blind proof with a replaced disclosed committed message is rejected likewise. Cross-suite replays, scalar-granular truncation/extension (C08/C09 cover the framing) and edits that re-assign generators (wrong L, swapped index lists) are NOT decided."
LEVEL_TEXT["C07"] = "Bounded model checking of the real proof_gen / commit / blind_proof_gen against a rand model that hands out a fixed table of DISTINCT draws: the number of draws is exactly 5+U / M+2, and every blinding value recomputed by a witness holder (r1, r2 from Abar and D; e~, r1~, r3~, m~_j, s~, m~_i from the responses; secret_prover_blind) equals the draw the drafts assign to that role, also for a second generation on the same inputs (disjoint draws). A constant, a reused or skipped draw, or swapped roles fails. Statistical quality of thread_rng, threads, KeyPair::random and the octet-window claim are NOT decided."
LEVEL_TEXT["C11"] = "Bounded model checking of the query-level domain separation: the four (suite, interface) api_ids are pairwise prefix-free; in the real sign, verify, proof_gen/proof_verify, commit/blind_sign/verify_blind_sign and blind proof flows every expand_message query carries a DST that starts with the api_id of the interface that was called (recorded DST heads compared octet by octet); generator creation under the plain, blind and BLIND_-prefixed ids equals the reference (seed, seed DST, generator DST all api_id-prefixed) and is independent of earlier requests. That artefacts of one suite/interface never verify under another then follows under the random-oracle assumption; it is not decided directly, and numeric facts about the real generators (distinct, non-identity, not P1) are outside."
NOTES = {
    "C08": "bls12_381_plus / elliptic-curve / rand are replaced by model crates (prime-order group as discrete logs mod 257, logged deterministic oracle, unconstrained randomness); generator creation and message-to-scalar hashing are stubbed by tables in operation harnesses; CBMC pointer-validity checks are ignored because zkryptium is safe Rust (checked at run time); inputs longer than the stated lengths, serde_json decoding and wall-clock time are outside.",
    "C09": "what the real bls12_381_plus accepts as a point or scalar is outside (model codecs are canonical by construction); JSON codec outside; lengths beyond the stated ranges outside.",
}
NOTES["C10"] = "model dependencies as for C08: equality is over the model oracle (deterministic fold) and model group, i.e. what is compared is everything zkryptium feeds to expand_message / the group (framing, DSTs, order, lengths), not SHA/SHAKE or curve arithmetic; messages/DSTs/key material restricted to a few symbolic octets per query; sign/verify/proof conformance and the 16-thread interleavings are outside (pure functions; no solver-level concurrency)."
NOTES["C12"] = "generators come from a fixed table stub (real generator creation is checked in C10); message-to-scalar hashing is real; degenerate cases sk+e = 0 and B' = identity (probability 1/r in the real group) are excluded; the induction step from the contract to histories is an argument in DESIGN.md, not a solver query; verification of the updated signature relies on the verify relation A(sk+e) = B which is not re-checked here."
NOTES["C01"] = "model dependencies; generators from a fixed pure table (stub, real creation checked in C10); the oracle is programmed, so WHAT is hashed is constrained only through the recorded query count and message/DST lengths here (content: C10 units); sk + e = 0 and B = identity excluded; L <= 2 (3), messages of 0-2 octets, header None/empty/1/2 octets; thousands of messages / long messages outside."
NOTES["C02"] = "as C01; 'altered message / header => different oracle answer => different scalar' is the random-oracle assumption (not decided); other public key, other ciphersuite, plain vs blind interface are NOT covered; bit flips for L <= 2."
NOTES["C03"] = "programmed oracle; fixed pure generator table; CONCRETE secret key (5), signature exponent (9), challenge (77) and blinding draw sequence (table of 16 distinct values) - with these symbolic the solver has to prove associativity of products of three symbolic factors mod 257 and does not finish; symbolic: all message scalars, domain, message/header/ph octets; L <= 3 with at most ONE undisclosed message (two or more do not close within the caps); production randomness path is the one compiled."
NOTES["C04"] = "as C03; 'a different query gets an independent answer' is the random-oracle assumption; only the four edit classes listed, on honest proofs; no adversarial proof construction."
NOTES["C05"] = "programmed oracle, fixed generator table, concrete sk = 5, e-answer 9, challenge 77, fixed draws, CONCRETE committed-message scalars (11, 13, ..) - symbolic ones do not close; signer-message scalars, domain and all octets symbolic; (L, M) in {0,1}^2 quick (L+M <= 3 thorough); blind proofs only with every message disclosed (the blinding factor is the one undisclosed value)."
NOTES["C06"] = "as C05; 'different query => independent answer' and 'different message => different scalar' are random-oracle assumptions; bit flips restricted to the payload octet of each segment (framing octets are covered by C09)."
NOTES["C07"] = "the property is checked as usage of the randomness source by zkryptium (which draw feeds which role), under the rand model; uniformity/independence of thread_rng is the model's contract, not a result; more than 16 draws, cross-thread behaviour and key generation randomness are outside."
NOTES["C11"] = "as C01/C03/C05/C10 (shared harnesses); cross verification is argued from query separation, not executed; real-curve generator values outside; counts <= 2 (4)."
TECH = "bounded model checking of the compiled Rust code (Kani 0.68 -> CBMC 6.11 -> CaDiCaL), one symbolic query per shape, counterexamples replayed on the real build"

NOT_APPLICABLE = {
    "C13": "CL03: every arithmetic step is a GMP foreign call (rug) with no symbolic semantics, moduli are 1024-3072 bit, and the cl03 feature cannot be built in this sandbox (gmp-mpfr-sys needs m4), so no counterexample could be replayed; unforgeability is not a bounded solver query.",
    "C14": "CL03 blind issuance: ~40 GMP pow_mod calls plus Boudot proofs per hidden attribute behind FFI; feature not buildable here; no encoding within reach.",
    "C15": "CL03 proof of knowledge: nine-response sigma protocol over GMP integers with SHA-256 over decimal strings; same obstacle (FFI arithmetic, feature not buildable).",
    "C16": "Boudot range proofs: integer square roots, floor divisions and 2^T scalings of multi-thousand-bit GMP integers; soundness against transplanting is not a bounded query over code the solver cannot execute.",
    "C17": "A data-exposure property of #[derive(Serialize)] struct layout in CL03 proofs; there is no computation for a solver to decide and the code cannot be built or replayed here.",
    "C18": "Primality / safe-prime / quadratic-residuosity facts of random 512-1536-bit GMP draws; outside bit-blasting or SMT reach, feature not buildable.",
    "C19": "Statistical masking margins of GMP-generated blinders versus 256-bit challenges; the code computing them cannot be encoded or built here.",
}
PENDING = {}


CLAIMED = ["C01", "C02", "C03", "C04", "C05", "C06", "C07", "C08", "C09", "C10", "C11", "C12"]


def main():
    checks = []
    for pid in CLAIMED:
        checks.append(dict(
            property_id=pid,
            quick_cmd="./check %s --tier quick" % pid,
            thorough_cmd="./check %s --tier thorough" % pid,
            evidence_file="/verif/evidence/%s.json" % pid,
            replay_cmd_template="./check %s --replay {path}" % pid,
            engine="kani-cbmc",
            level_claimed=dict(category="model_checking", text=LEVEL_TEXT[pid], design_ref="DESIGN.md §3 (%s), §2" % pid),
            level_note=NOTES[pid],
            technique=TECH,
        ))
    na = [dict(property_id=k, reason=v) for k, v in sorted(NOT_APPLICABLE.items())]
    allp = ["C%02d" % i for i in range(1, 20)]
    for p in allp:
        if p not in CLAIMED and p not in NOT_APPLICABLE:
            na.append(dict(property_id=p, reason=PENDING.get(p, "not claimed: the solver-based harnesses for this property have not been shown to close within the time caps (see DESIGN.md §0); no check is registered rather than one that does not finish")))
    m = dict(
        version=1,
        setup_cmd="./setup.sh",
        hooks=dict(guard="cfg(kani)", enable="cargo kani sets --cfg kani; no source hook is currently present in /repo (harnesses live in /verif/harness and use [patch.crates-io] model dependencies)",
                   baseline_off_cmd="cd /repo && cargo test --workspace --no-fail-fast --offline", source_commits=[], add_only=True),
        engines=[dict(name="kani-cbmc", path="/verif/check", serves_properties=CLAIMED,
                      kind_free_text="Kani 0.68 proof harnesses generated per shape by /verif/vlib, run through cargo kani (CBMC 6.11 + CaDiCaL); counterexamples replayed natively on the model and then on the real crates by /verif/replay")],
        checks=checks,
        notes="see DESIGN.md; known_findings.json lists fixed defects (F1-F5, F11).",
        not_applicable=sorted(na, key=lambda x: x["property_id"]),
    )
    json.dump(m, open(os.path.join(VERIF, "MANIFEST.json"), "w"), indent=1)
    print("MANIFEST.json written:", [c["property_id"] for c in checks])


if __name__ == "__main__":
    main()
