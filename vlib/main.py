import argparse, json, os, shutil, subprocess, sys, time, hashlib, re
from . import runner
from .runner import Spec
from .props import PROPS

VERIF = runner.VERIF


def prepare_workspace(pid):
    """Per-property copy of the harness crate (own target dir, so checks can run concurrently).
    Sources are re-copied on every run; zkryptium is a path dependency on /repo, so the encoding
    is rebuilt from /repo's current working tree."""
    ws = os.path.join(VERIF, "work", pid + os.environ.get("VERIF_WORKTAG", ""), "harness")
    os.makedirs(ws, exist_ok=True)
    src = os.path.join(VERIF, "harness")
    subprocess.run(["rsync", "-a", "--delete", "--exclude", "target", "--exclude", "Cargo.lock",
                    src + "/", ws + "/"], check=True)
    ct = open(os.path.join(ws, "Cargo.toml")).read()
    ct = ct.replace('path = "../models/', 'path = "%s/models/' % VERIF)
    # the repository under check (default /repo; mutation experiments point this at a scratch worktree)
    ct = ct.replace('path = "/repo"', 'path = "%s"' % os.environ.get("VERIF_REPO", "/repo"))
    open(os.path.join(ws, "Cargo.toml"), "w").write(ct)
    lock = os.path.join(ws, "Cargo.lock")
    if not os.path.exists(lock):
        shutil.copy("/repo/Cargo.lock", lock)
    return ws


def load_known():
    p = os.path.join(VERIF, "known_findings.json")
    if not os.path.exists(p):
        return []
    return json.load(open(p)).get("findings", [])


def main(argv):
    ap = argparse.ArgumentParser()
    ap.add_argument("pid")
    ap.add_argument("--tier", default=os.environ.get("VERIF_TIER", "quick"))
    ap.add_argument("--replay", default=None)
    ap.add_argument("--only", default=None, help="run only harnesses whose name contains this")
    ap.add_argument("--jobs", type=int, default=None)
    ap.add_argument("--no-evidence", action="store_true")
    ap.add_argument("--no-transport", action="store_true", help="calibration runs: do not replay counterexamples")
    ap.add_argument("--dump", default=None, help="write per-harness verdicts to this JSON file")
    a = ap.parse_args(argv)
    pid = a.pid
    tier = a.tier if a.tier in ("quick", "thorough") else "quick"
    try:
        seed = int(os.environ.get("VERIF_SEED", "0"))
    except ValueError:
        seed = 0
    if pid not in PROPS:
        print("unknown or not-applicable property", pid)
        return 2
    if a.replay:
        from . import replay
        return replay.replay_file(a.replay)

    t0 = time.time()
    # the reference transcription (oracle of every contract / unit check) must reproduce all fixture
    # values of both suites on the real crates; otherwise the check is not trusted
    fixtures = None
    if pid not in ("C08", "C09"):
        from . import replay as _rp
        exe, err = _rp.build_replay_tool()
        if exe is None:
            print("BROKEN-CHECK reference validation: replay tool does not build:", err[-300:])
            return 2
        pr = subprocess.run([exe, "fixtures"], stdout=subprocess.PIPE, stderr=subprocess.STDOUT)
        out = pr.stdout.decode(errors="replace")
        m = re.search(r"FIXTURES ok=(\d+) mismatched=(\d+)", out)
        fixtures = dict(ok=int(m.group(1)), mismatched=int(m.group(2))) if m else None
        if pr.returncode != 0 or not m or fixtures["mismatched"] != 0:
            print("BROKEN-CHECK reference validation: the reference transcription does not reproduce the fixture files:", out[-400:])
            return 2
    specs = PROPS[pid](tier, seed)
    if a.only:
        specs = [s for s in specs if a.only in s.name]
    ws = prepare_workspace(pid)
    runner.HARNESS = ws
    runner.WORK = os.path.join(VERIF, "work", pid + os.environ.get("VERIF_WORKTAG", ""))
    runner.write_generated(specs)

    results = {}
    walls = {}
    qcap = int(os.environ.get("VERIF_HARNESS_TIMEOUT", "600" if tier == "quick" else "2700"))
    for (g, feat) in sorted(set((s.group, s.features or "") for s in specs)):
        gs = [s for s in specs if s.group == g and (s.features or "") == feat]
        res, wall, logtxt = runner.run_group(gs, g, tier, "%s_%s%s" % (pid, tier, ("_" + feat) if feat else ""), jobs=a.jobs, default_timeout=qcap, features=feat or None)
        # a crash of kani-driver / cbmc loses the whole batch: isolate by re-running in small chunks
        lost = [s for s in gs if res[s.name]["status"] == "error" and "no JSON" in str(res[s.name].get("reason"))]
        if lost and len(gs) > 1 and "error: could not compile" not in logtxt and "error[E" not in logtxt:
            chunk = 6
            for k in range(0, len(lost), chunk):
                sub = lost[k:k + chunk]
                r2, w2, l2 = runner.run_group(sub, g, tier, "%s_%s_retry%d" % (pid, tier, k), jobs=a.jobs, default_timeout=qcap, features=feat or None)
                still = [s for s in sub if r2[s.name]["status"] == "error" and "no JSON" in str(r2[s.name].get("reason"))]
                if still and len(sub) > 1:
                    for s1 in still:
                        r3, w3, l3 = runner.run_group([s1], g, tier, "%s_%s_single" % (pid, tier), jobs=1, default_timeout=qcap, features=feat or None)
                        if r3[s1.name]["status"] == "error":
                            r3[s1.name]["status"] = "undecided"
                            r3[s1.name]["reason"] = "kani-driver/cbmc crashed on this harness (no verdict)"
                        r2.update(r3)
                        wall += w3
                res.update(r2)
                wall += w2
        results.update(res)
        walls[g + (("+" + feat) if feat else "")] = wall

    # ---- verdicts ------------------------------------------------------------------------------
    known = load_known()
    violations, known_hits, broken, undecided = [], [], [], []
    from . import replay
    # ---- counterexample transport: one representative per (entry point, failing check) class, in parallel
    failing = [s for s in specs if s.expect != "fail" and results[s.name]["status"] == "fail"]
    classes = {}
    for s in failing:
        r = results[s.name]
        fc = (r.get("failed_checks") or [{}])[0]
        cls = (s.shape.get("entry") or s.shape.get("codec") or s.shape.get("contract") or s.fn, fc.get("fn"), fc.get("line"), fc.get("desc"))
        classes.setdefault(cls, []).append(s)
    max_classes = int(os.environ.get("VERIF_MAX_TRANSPORT", "8"))
    reps = {}
    todo = []
    for n, (cls, members) in enumerate(sorted(classes.items(), key=lambda kv: str(kv[0]))):
        # cheapest member first: short playback
        members.sort(key=lambda s: results[s.name].get("duration_ms") or 0)
        if n < max_classes and not a.no_transport:
            todo.append((cls, members[0]))
    if todo:
        import concurrent.futures, shutil as _sh
        def work(item):
            cls, s1 = item
            # own workspace copy so that inplace playback edits and builds do not collide
            wsx = os.path.join(VERIF, "work", pid + os.environ.get("VERIF_WORKTAG", ""), "pb_" + s1.name)
            subprocess.run(["rsync", "-a", "--delete", "--exclude", "target", ws + "/", wsx + "/"], check=True)
            try:
                tr = replay.transport(pid, s1, results[s1.name], wsx)
            except Exception as e:  # noqa
                tr = dict(reproduced=None, reason="transport crashed: %r" % (e,))
            tr["harness"] = s1.name
            _sh.rmtree(wsx, ignore_errors=True)
            return cls, tr
        with concurrent.futures.ThreadPoolExecutor(max_workers=min(4, len(todo))) as ex:
            for cls, tr in ex.map(work, todo):
                reps[cls] = tr
    for cls, members in classes.items():
        for s in members:
            if cls in reps:
                tr = dict(reps[cls])
                if tr.get("harness") != s.name:
                    tr["same_class_as"] = tr.get("harness")
            elif a.no_transport:
                tr = dict(reproduced=None, reason="--no-transport")
            else:
                tr = dict(reproduced=None, reason="more than %d distinct failure classes; not transported" % max_classes)
            results[s.name]["transport"] = tr
    for s in specs:
        r = results[s.name]
        st = r["status"]
        if s.expect == "fail":
            # reachability twin: must come back violated
            if st == "fail":
                r["verdict"] = "twin-violated-as-required"
            elif st == "pass":
                r["verdict"] = "BROKEN: reachability twin passed (harness vacuous)"
                broken.append((s, r))
            else:
                undecided.append((s, r))
            continue
        if st == "pass":
            r["verdict"] = "holds-within-bound"
        elif st == "fail":
            tr = r["transport"]
            if tr.get("reproduced") is True:
                k = replay.match_known(known, pid, tr)
                if k is not None:
                    known_hits.append((s, r, k))
                    r["verdict"] = "known-finding"
                else:
                    violations.append((s, r))
                    r["verdict"] = "VIOLATION"
            elif tr.get("reproduced") is False:
                r["verdict"] = "BROKEN: counterexample does not reproduce on the real build (model/harness error): %s" % tr.get("detail")
                broken.append((s, r))
            else:
                r["verdict"] = "BROKEN: counterexample could not be transported: %s" % tr.get("reason")
                broken.append((s, r))
        elif st in ("vacuous", "error"):
            r["verdict"] = "BROKEN: " + str(r.get("reason"))
            broken.append((s, r))
        else:
            r["verdict"] = "undecided: " + str(r.get("reason"))
            undecided.append((s, r))

    wall = time.time() - t0
    if a.dump:
        json.dump({s.name: dict(status=results[s.name]["status"], reason=results[s.name].get("reason"),
                                dur=results[s.name].get("duration_ms"), failed=results[s.name].get("failed_checks"),
                                artefacts=results[s.name].get("n_memory_artefacts")) for s in specs}, open(a.dump, "w"), indent=1)
    decided = [s for s in specs if results[s.name]["status"] in ("pass", "fail")]
    # ---- evidence ------------------------------------------------------------------------------
    if not a.no_evidence and not a.only:
        write_evidence(pid, tier, seed, specs, results, wall, walls, violations, known_hits, broken, undecided, fixtures)

    # ---- report --------------------------------------------------------------------------------
    print("check %s tier=%s seed=%d: %d queries, %d decided, %d undecided, %d broken, wall %.0fs" % (
        pid, tier, seed, len(specs), len(decided), len(undecided), len(broken), wall))
    seen_known = set()
    for (s, r, k) in known_hits:
        if k["key"] not in seen_known:
            seen_known.add(k["key"])
            print("KNOWN-FINDING: property=%s %s" % (pid, k["what"]))
    rc = 0
    if violations:
        os.makedirs(os.path.join(VERIF, "replays"), exist_ok=True)
        for (s, r) in violations:
            body = dict(property=pid, harness=s.name, shape=s.shape, failed_checks=r.get("failed_checks"),
                        transport=r.get("transport"))
            h = hashlib.sha1(json.dumps(body, sort_keys=True).encode()).hexdigest()[:10]
            path = os.path.join(VERIF, "replays", "%s-%s.json" % (pid, h))
            json.dump(body, open(path, "w"), indent=1)
            print("VIOLATION property=%s replay=%s" % (pid, path))
            print("  harness %s: %s" % (s.name, "; ".join((c.get("desc") or "") for c in (r.get("failed_checks") or [])[:2])))
        rc = 1
    if broken:
        for (s, r) in broken[:20]:
            print("BROKEN-CHECK %s: %s" % (s.name, r.get("verdict")))
            if r.get("log_tail"):
                print(r["log_tail"])
        if rc == 0:
            rc = 2
    if undecided:
        for (s, r) in undecided[:20]:
            print("UNDECIDED %s: %s" % (s.name, r.get("reason")))
        # an undecided query is never a pass; the check only exits 0 if something was decided
        if rc == 0 and len(undecided) * 4 > len(specs):
            rc = 2
    return rc


def write_evidence(pid, tier, seed, specs, results, wall, walls, violations, known_hits, broken, undecided, fixtures=None):
    ev_dir = os.path.join(VERIF, "evidence")
    os.makedirs(ev_dir, exist_ok=True)
    decided = [s for s in specs if results[s.name]["status"] in ("pass", "fail")]
    nontriv = [s for s in decided if results[s.name].get("covers_unsat", 0) == 0 or s.covers_required is False]
    fns = sorted(set(s.fn for s in specs))
    solver_s = sum((results[s.name].get("cbmc") or {}).get("runtime_solver_s", 0) or 0 for s in specs)
    symex_s = sum((results[s.name].get("cbmc") or {}).get("runtime_symex_s", 0) or 0 for s in specs)
    nchecks = sum(results[s.name].get("n_checks", 0) for s in specs)
    samples = []
    for s in specs[:: max(1, len(specs) // 12)][:14]:
        r = results[s.name]
        samples.append(dict(harness=s.name, body=s.call, shape=s.shape, unwind=s.unwind, stubs=s.stubs,
                            flags=runner.GROUP_FLAGS[s.group], verdict=r.get("verdict"),
                            cbmc_properties=r.get("n_checks"), covers=r.get("covers_total"),
                            solver_s=(r.get("cbmc") or {}).get("runtime_solver_s"),
                            program_size=(r.get("cbmc") or {}).get("size_program_expression")))
    from .bounds import BOUNDS, ASSUMPTIONS
    ev = dict(
        property_id=pid, tier=tier, seed=seed, level="model_checking",
        coverage=dict(
            evaluations=len(specs),
            distinct_nontrivial=len(nontriv),
            rule=("one evaluation = one SAT-decided bounded-model-checking query (Kani 0.68 / CBMC 6.11 / CaDiCaL) over the "
                  "real zkryptium functions compiled from /repo's working tree against the model dependencies; shapes "
                  "(lengths, counts, suite) are concrete per query, contents / indexes / declared counts are symbolic. "
                  "A query counts as distinct non-trivial when it has a distinct harness instantiation, the solver decided "
                  "it (no timeout / OOM / unwinding failure) and all of its kani::cover! reachability witnesses were satisfied."),
            samples=samples,
            exhaustive=False,
            technique="bounded model checking of the compiled code (symbolic execution + SAT), per-shape queries",
            functions_encoded=fns,
            bounds=BOUNDS.get(pid, {}).get(tier, BOUNDS.get(pid, {}).get("all", "")),
            outside_bounds=BOUNDS.get(pid, {}).get("outside", ""),
            queries_discharged=len(decided),
            queries_undecided=[dict(harness=s.name, reason=results[s.name].get("reason")) for (s, _) in undecided],
            queries_broken=[dict(harness=s.name, reason=results[s.name].get("verdict")) for (s, _) in broken],
            cbmc_properties_checked=nchecks,
            solver_time_s=round(solver_s, 2),
            symex_time_s=round(symex_s, 2),
            wall_by_group_s={k: round(v, 1) for k, v in walls.items()},
            counterexamples=[dict(harness=s.name, shape=s.shape, failed=results[s.name].get("failed_checks"),
                                  transport=results[s.name].get("transport")) for (s, _) in violations],
            known_findings_seen=sorted(set(k["key"] for (_, _, k) in known_hits)),
            reference_fixture_values_reproduced_on_real_crates=(fixtures or {}).get("ok"),
            traces_validated_against_impl=sum(1 for s in specs if (results[s.name].get("transport") or {}).get("reproduced") is True),
        ),
        assumptions=ASSUMPTIONS.get(pid, []) + ASSUMPTIONS.get("*", []),
        wall_s=round(wall, 1),
        violations=len(violations),
    )
    json.dump(ev, open(os.path.join(ev_dir, pid + ".json"), "w"), indent=1)
