"""Stated bounds and assumptions per property (copied into the evidence)."""
BOUNDS = {
    "C08": {
        "quick": "decoders: boundary lengths + 3 seed-chosen lengths per decoder within 0..=canonical+40, all contents symbolic; operations: L<=2 messages of 1 symbolic byte, U<=2, R<=3, every index / declared count an unconstrained usize, commitment octets of 10 boundary lengths",
        "thorough": "decoders: EVERY length 0..=canonical+40 (pk 0..=136, sk 0..=72, proof 0..=376, zkpok 0..=136, commitment 0..=184), all contents symbolic; operations: L<=3, U<=3, R<=4, both suites",
        "outside": "inputs longer than the stated lengths; serde_json decoding; messages longer than 1 byte (message bytes only feed the stubbed message-to-scalar map); wall-clock time (work is bounded by counting generator requests / hash-to-curve calls instead)",
    },
    "C09": {
        "quick": "every decoder at its canonical length, +-1, and boundary/seed-chosen wrong lengths; all contents symbolic; round trips for U<=2 / M<=2",
        "thorough": "every length 0..=192 (pk), 0..=72 (sk), 0..=400 (proof), 0..=160 (zkpok), 0..=208 (commitment); U<=3, M<=3",
        "outside": "JSON (serde) codec; what bls12_381_plus itself accepts as a point/scalar (the model codecs are canonical by construction: flag byte, zero padding, value < Q)",
    },
}
BOUNDS["C10"] = {
    "quick": "i2osp: every usize; hash_to_scalar: (msg,dst) lengths (0,0),(1,3),(5,40),(33,255),(2,256); KeyGen: ikm 0/31/32/33 octets (4 symbolic), key_info None/empty/1/2 octets, key_dst None/empty/3 octets, key_info 65536; generators: count <= 2, five api_id shapes; messages of 0/1/3 octets; blind challenge over <= 2 generators; both suites",
    "thorough": "as quick plus count <= 4, messages up to 64 octets, further dst/ikm lengths",
    "outside": "composite operations (sign, proof generation, verifiers, blind issuance) as differential checks; interleavings on threads; counts > 4; long messages",
}
BOUNDS["C12"] = {
    "quick": "n <= 3, every position 0..=n plus usize::MAX and usize::MAX-1, one-octet old/new messages, arbitrary (A, e) and sk; one suite per shape chosen by seed",
    "thorough": "n <= 5, both suites",
    "outside": "n > 5; executing chains of updates (covered by the inductive argument only); verification of the result through verify()",
}
BOUNDS["C01"] = {
    "quick": "L in {0,1,2}, header None/empty/1/2 octets, messages of 0-2 symbolic octets, message list None for L = 0, both suites; sk, (A, e) and every oracle answer symbolic",
    "thorough": "L <= 3, all 16 (L, header) combinations",
    "outside": "L > 3, messages > 2 octets (their octets only reach the oracle), key generation (C10)",
}
BOUNDS["C02"] = {
    "quick": "verify equivalence for the C01 shapes; bit flips (any of 640) for (L, header) in {(0,None),(1,1 octet),(2,empty)}",
    "thorough": "L <= 3; six bit-flip shapes, both suites",
    "outside": "other public key, cross-suite and cross-interface re-interpretation, message insert/delete/swap as explicit runs (they follow from the equivalence plus the random-oracle assumption)",
}
BOUNDS["C03"] = {
    "quick": "(L, disclosed set) in {(0,{}), (1,{}), (1,{0}), (2,{0}), (2,{1}), (2,{0,1}), (3,{0,2}), (3,{1,2}), (3,{0,1})} with ascending / descending / duplicated index presentation, header and ph None/empty/1/2 octets, one suite per shape by seed",
    "thorough": "every (L <= 3, subset) with at most one undisclosed message, both suites",
    "outside": "two or more undisclosed messages; L > 3; symbolic sk / e / challenge / blinding (fixed values, see level_note)",
}
BOUNDS["C04"] = {
    "quick": "the C03 shapes x {message edit, header edit, ph edit, index move, surplus message} where applicable; payload bit flips in every segment for (L=1, nothing disclosed) and (L=2, all disclosed)",
    "thorough": "as C03 thorough",
    "outside": "bit flips of framing octets and scalar-granular truncation/extension (C09), other public key, forgeries built without a signature, serde-deserialized proofs",
}
BOUNDS["C05"] = {
    "quick": "issuance (L, M) in {(0,0), (1,0), (0,1)}; blind presentation (L, M) in {(0,0), (1,0), (0,1), (1,1)} with all messages disclosed; header None/empty/1/2 octets",
    "thorough": "issuance additionally (1,1), (2,1), (1,2), (0,2); presentation (2,1), (1,2); both suites",
    "outside": "hidden messages in blind proofs; symbolic committed scalars / key / challenge / blinding; L + M > 3",
}
BOUNDS["C06"] = {"quick": "the C05 shapes x edits (bit flip per segment, committed message, blinding factor, header, signer message; disclosed committed message in proofs)", "thorough": "as C05 thorough", "outside": "cross-suite replay; wrong signer-message count; index-list swaps; whole-scalar truncation/extension"}
BOUNDS["C07"] = {"quick": "proof_gen: (L, disclosed) in {(0,{}), (1,{}), (1,{0}), (2,{0})} plus two consecutive generations for (1,{}) and (2,{1}); commit: M in {0,1}; blind_proof_gen: U = 1", "thorough": "L <= 3", "outside": "more than 16 draws per harness; threads; KeyPair::random; statistical properties"}
BOUNDS["C11"] = {"quick": "constants; DST heads of all queries in sign/verify (L = 1, 2), proof flow (L = 1, 2), issuance (L, M <= 1), blind proof (M = 1); generator units of C10 (count <= 2, five api_id shapes, history pairs)", "thorough": "the thorough shapes of those checks", "outside": "executed cross-suite / cross-interface verification; properties of the real generator points"}
ASSUMPTIONS = {
    "*": [
        "bls12_381_plus is replaced by a prime-order bilinear group model (elements = discrete logs mod Q, Q in {13,31,251}); its real field/curve/pairing arithmetic and codecs are outside the claim",
        "elliptic-curve's expand_message (SHA-256 XMD / SHAKE-256 XOF) is replaced by a logged deterministic fold; collision resistance is an explicit assumption where used",
        "rand::thread_rng is replaced by unconstrained fresh values with a draw log",
        "Kani models the dev profile (overflow checks on, debug assertions on)",
    ],
    "C08": [
        "stub Generators::create -> table lookup that counts requested generators and asserts the request is within the work budget derived from the input sizes",
        "stub messages_to_scalar / map_message_to_scalar_as_hash -> programmed scalars (their own panic-freedom is covered by the un-stubbed C10 harnesses)",
        "declared counts (n of update_signature) count as input size",
    ],
    "C09": [],
    "C11": ["random-oracle assumption for the step from disjoint query sets to non-verification", "shared harnesses of C01, C03, C05, C10"],
    "C05": ["programmed random oracle with octet capture", "fixed draw table (feature fixedrand)", "sk = 5; e-answer, challenge and committed-message scalars concrete", "B != identity"],
    "C06": ["as C05", "independent answers for different queries"],
    "C07": ["rand model: thread_rng yields the table values 3,5,7,11,13,17,19,23,29,31,37,41,43,47,53,59 in order"],
    "C03": ["programmed random oracle with octet capture of the two challenge queries", "rand model returns a fixed table of distinct non-zero values (feature fixedrand)", "sk = 5, e = 9, challenge state 77 concrete", "B != identity"],
    "C04": ["as C03", "distinct oracle queries get independent answers"],
    "C01": ["programmed random oracle: expand_message answers are unconstrained symbols (feature prog of the elliptic-curve model, one static struct)", "stub Generators::create -> fixed pure table", "sk + e != 0, B != identity (inversion of zero is assumed away in the model under Kani)"],
    "C02": ["as C01", "distinct oracle queries have distinct answers (random-oracle / collision-resistance assumption) where an edit is argued to change B"],
    "C10": ["the reference transcription (harness/src/reference.rs) is validated against all fixture files of both suites on the real crates by `zkreplay fixtures` (60 values)"],
    "C12": ["stub Generators::create -> fixed pure table (2+3i)", "sk + e != 0 and B' != identity"],
}
