#!/bin/bash
# usage: kone.sh <workdir> <harness> [timeout] [nloops] [features] -- debugging helper: one harness, stats + hottest loops
W=$1; H=$2; T=${3:-120}; F=${5:+--features $5}
cd $W && (timeout $T cargo kani -Z stubbing -Z unstable-options --no-memory-safety-checks --no-assertion-reach-checks $F --exact --harness h::generated::$H --export-json /tmp/kone.json --cbmc-args --max-field-sensitivity-array-size 1024 > /tmp/kone.log 2>&1)
if [ -f /tmp/kone.json ]; then python3 /verif/tools_stats.py /tmp/kone.json | cut -c1-180 | head -8; rm -f /tmp/kone.json; else echo "no json (timeout $T s?)"; fi
grep -a "Unwinding loop" /tmp/kone.log | sed -E 's/iteration [0-9]+//; s/file .* function/fn/' | cut -c16-140 | sort | uniq -c | sort -rn | head -${4:-6}
