use crate::xlate::xlate;
use crate::*;
use elliptic_curve::hash2curve::ExpandMsg;
use zkryptium::bbsplus::ciphersuites::{BbsCiphersuite, Bls12381Sha256, Bls12381Shake256};
use zkryptium::bbsplus::commitment::{BBSplusCommitment, BlindFactor};
use zkryptium::bbsplus::generators::Generators;
use zkryptium::bbsplus::keys::{BBSplusPublicKey, BBSplusSecretKey};
use zkryptium::bbsplus::proof::{BBSplusPoKSignature, BBSplusZKPoK};
use zkryptium::bbsplus::signature::BBSplusSignature;
use zkryptium::keys::pair::KeyPair;
use zkryptium::schemes::algorithms::BBSplus;
use zkryptium::schemes::generics::{BlindSignature, Commitment, PoKSignature, Signature};

fn q(a: &Args) -> usize {
    let v = get_usize(a, "q");
    if v == 0 {
        251
    } else {
        v
    }
}

fn norm_panic(msg: &str) -> String {
    // class of a panic message, stable across concrete numbers
    let m = msg.to_lowercase();
    if m.contains("out of range") || m.contains("out of bounds") || m.contains("index") {
        "slice-index".into()
    } else if m.contains("overflow") {
        "arith-overflow".into()
    } else if m.contains("unwrap") || m.contains("none") {
        "unwrap".into()
    } else {
        "panic".into()
    }
}

// ------------------------------------------------------------------------------------------
fn decode_entry(entry: &str, bytes: &[u8]) -> Result<Result<Vec<u8>, String>, String> {
    // Ok(Ok(reencoded)) | Ok(Err(error text)) | Err(panic message)
    guarded(|| -> Result<Vec<u8>, String> {
        match entry {
            "pk" => BBSplusPublicKey::from_bytes(bytes).map(|x| x.to_bytes().to_vec()).map_err(|e| e.to_string()),
            "sk" => BBSplusSecretKey::from_bytes(bytes).map(|x| x.to_bytes().to_vec()).map_err(|e| e.to_string()),
            "sig" => match <&[u8; 80]>::try_from(bytes) {
                Ok(b) => BBSplusSignature::from_bytes(b).map(|x| x.to_bytes().to_vec()).map_err(|e| e.to_string()),
                Err(_) => Err("length".into()),
            },
            "blindfactor" => match <&[u8; 32]>::try_from(bytes) {
                Ok(b) => BlindFactor::from_bytes(b).map(|x| x.to_bytes().to_vec()).map_err(|e| e.to_string()),
                Err(_) => Err("length".into()),
            },
            "proof" => BBSplusPoKSignature::from_bytes(bytes).map(|x| x.to_bytes()).map_err(|e| e.to_string()),
            "zkpok" => BBSplusZKPoK::from_bytes(bytes).map(|x| x.to_bytes()).map_err(|e| e.to_string()),
            "commitment" => BBSplusCommitment::from_bytes(bytes).map(|x| x.to_bytes()).map_err(|e| e.to_string()),
            "coords" => {
                if bytes.len() != 192 {
                    return Err("length".into());
                }
                let x: [u8; 96] = bytes[..96].try_into().unwrap();
                let y: [u8; 96] = bytes[96..].try_into().unwrap();
                BBSplusPublicKey::from_coordinates(&x, &y)
                    .map(|p| {
                        let (a, b) = p.to_coordinates();
                        [a.to_vec(), b.to_vec()].concat()
                    })
                    .map_err(|e| e.to_string())
            }
            _ => Err("unknown entry".into()),
        }
    })
}

pub fn replay_dec(a: &Args) -> (bool, String, String) {
    let entry = get(a, "entry");
    let model = get_bytes(a, "bytes");
    let real = xlate(entry, &model, q(a));
    for cand in [&real, &model] {
        if let Err(p) = decode_entry(entry, cand) {
            return (true, format!("{}::from_bytes:{}:len{}", entry, norm_panic(&p), class_len(entry, model.len())),
                    format!("real decoder panicked on {} bytes: {}", cand.len(), p));
        }
    }
    (false, format!("{}::from_bytes", entry), format!("real decoder returned normally for {} bytes", model.len()))
}

fn canonical_len(entry: &str) -> usize {
    match entry {
        "pk" => 96,
        "sk" | "blindfactor" => 32,
        "sig" => 80,
        "proof" => 272,
        "zkpok" => 64,
        "commitment" => 112,
        "coords" => 192,
        _ => 0,
    }
}
fn class_len(entry: &str, len: usize) -> &'static str {
    let c = canonical_len(entry);
    let min = match entry {
        "proof" => 240,
        "zkpok" => 32,
        "commitment" => 48,
        _ => c,
    };
    if len < min {
        "-short"
    } else {
        "-long"
    }
}

pub fn replay_canon(a: &Args) -> (bool, String, String) {
    let entry = get(a, "entry");
    let model = get_bytes(a, "bytes");
    let real = xlate(entry, &model, q(a));
    match decode_entry(entry, &real) {
        Err(p) => (true, format!("{}::from_bytes:{}", entry, norm_panic(&p)), format!("real decoder panicked: {}", p)),
        Ok(Err(e)) => (false, format!("{}:canon", entry), format!("real decoder refuses the transported octets ({})", e)),
        Ok(Ok(re)) => {
            if re != real {
                let what = if re.len() != real.len() { "trailing-or-missing-bytes" } else { "non-canonical-accepted" };
                return (true, format!("{}:canon:{}", entry, what),
                        format!("accepted {} octets re-encode to {} different octets", real.len(), re.len()));
            }
            // forbidden values
            let ident48 = |b: &[u8]| b[0] & 0x40 != 0;
            let zero32 = |b: &[u8]| b.iter().all(|x| *x == 0);
            let bad = match entry {
                "pk" | "coords" => real[0] & 0x40 != 0,
                "sig" => ident48(&real[0..48]) || zero32(&real[48..80]),
                "proof" => ident48(&real[0..48]) || ident48(&real[48..96]) || ident48(&real[96..144]),
                _ => false,
            };
            if bad {
                (true, format!("{}:canon:forbidden-identity-or-zero", entry), "identity point / zero exponent accepted".into())
            } else {
                (false, format!("{}:canon", entry), "accepted octets are canonical on the real build".into())
            }
        }
    }
}

// ------------------------------------------------------------------------------------------
fn msgs_from(bytes: &[u8]) -> Vec<Vec<u8>> {
    bytes.iter().map(|b| vec![*b]).collect()
}
fn opt_bytes(a: &Args, k: &str) -> Option<Vec<u8>> {
    get_opt(a, k).map(|s| {
        s.trim_start_matches('[').trim_end_matches(']').split(',').filter_map(|x| x.trim().parse::<u8>().ok()).collect()
    })
}

fn op_generic<CS: BbsCiphersuite>(a: &Args) -> Result<String, String>
where
    CS::Expander: for<'x> ExpandMsg<'x>,
{
    let entry = get(a, "entry").to_string();
    let kp = KeyPair::<BBSplus<CS>>::generate(&[7u8; 32], None, None).unwrap();
    let (sk, pk) = (kp.private_key().clone(), kp.public_key().clone());
    let pk = if get(a, "pk") == "0" { BBSplusPublicKey(bls12_381_plus::G2Projective::IDENTITY) } else { pk };
    let msgs = msgs_from(&get_bytes(a, "msgs"));
    let cmsgs = msgs_from(&get_bytes(a, "cmsgs"));
    let hdr = opt_bytes(a, "hdr");
    let ph = opt_bytes(a, "ph");
    let idx = get_usizes(a, "idx");
    let idx2 = get_usizes(a, "idx2");
    let qv = q(a);
    let r = guarded(|| -> String {
        match entry.as_str() {
            "verify" => {
                let sb = xlate("sig", &get_bytes(a, "sig"), qv);
                match Signature::<BBSplus<CS>>::from_bytes(&sb.clone().try_into().unwrap()) {
                    Ok(s) => format!("{:?}", s.verify(&pk, Some(&msgs), hdr.as_deref()).is_ok()),
                    Err(e) => format!("decode:{}", e),
                }
            }
            "proof_verify" | "blind_proof_verify" => {
                let pb = xlate("proof", &get_bytes(a, "proof"), qv);
                match PoKSignature::<BBSplus<CS>>::from_bytes(&pb) {
                    Ok(p) => {
                        if entry == "proof_verify" {
                            format!("{:?}", p.proof_verify(&pk, Some(&msgs), Some(&idx), hdr.as_deref(), ph.as_deref()).is_ok())
                        } else {
                            let l = get_opt(a, "L").and_then(|s| s.parse::<usize>().ok());
                            format!("{:?}", p.blind_proof_verify(&pk, hdr.as_deref(), ph.as_deref(), l, Some(&msgs), Some(&cmsgs), Some(&idx), Some(&idx2)).is_ok())
                        }
                    }
                    Err(e) => format!("decode:{}", e),
                }
            }
            "blind_sign" => {
                let cb = xlate("commitment", &get_bytes(a, "commitment"), qv);
                format!("{:?}", BlindSignature::<BBSplus<CS>>::blind_sign(&sk, &pk, Some(&cb), hdr.as_deref(), Some(&msgs)).is_ok())
            }
            "verify_blind_sign" => {
                let sb = xlate("sig", &get_bytes(a, "sig"), qv);
                match BlindSignature::<BBSplus<CS>>::from_bytes(&sb.clone().try_into().unwrap()) {
                    Ok(s) => {
                        let bf = BlindFactor::from_bytes(&xlate("blindfactor", &get_bytes(a, "bf"), qv).try_into().unwrap()).ok();
                        let use_bf = get(a, "use_bf") == "true";
                        format!("{:?}", s.verify_blind_sign(&pk, hdr.as_deref(), Some(&msgs), Some(&cmsgs), if use_bf { bf.as_ref() } else { None }).is_ok())
                    }
                    Err(e) => format!("decode:{}", e),
                }
            }
            "deserialize_and_validate_commit" => {
                let cb = xlate("commitment", &get_bytes(a, "commitment"), qv);
                let g = Generators::create::<CS>(get_usize(a, "G"), Some(&[b"BLIND_", CS::API_ID_BLIND].concat()));
                format!("{:?}", Commitment::<BBSplus<CS>>::deserialize_and_validate_commit(Some(&cb), &g, Some(CS::API_ID_BLIND)).is_ok())
            }
            "proof_gen" => {
                let sb0 = get_bytes(a, "sig");
                let sb = if sb0.len() == 80 { xlate("sig", &sb0, qv) } else { sb0 };
                format!("{:?}", PoKSignature::<BBSplus<CS>>::proof_gen(&pk, &sb, hdr.as_deref(), ph.as_deref(), Some(&msgs), Some(&idx)).is_ok())
            }
            "blind_proof_gen" => {
                let sb = xlate("sig", &get_bytes(a, "sig"), qv);
                format!("{:?}", PoKSignature::<BBSplus<CS>>::blind_proof_gen(&pk, &sb, hdr.as_deref(), ph.as_deref(), Some(&msgs), Some(&cmsgs), Some(&idx), Some(&idx2), None).is_ok())
            }
            "update_signature" => {
                let sb = xlate("sig", &get_bytes(a, "sig"), qv);
                match Signature::<BBSplus<CS>>::from_bytes(&sb.clone().try_into().unwrap()) {
                    Ok(s) => {
                        let n = get(a, "n").parse::<usize>().unwrap_or(0);
                        let ui = get(a, "ui").parse::<usize>().unwrap_or(0);
                        format!("{:?}", s.update_signature(&sk, &get_bytes(a, "old"), &get_bytes(a, "new"), ui, n).is_ok())
                    }
                    Err(e) => format!("decode:{}", e),
                }
            }
            "generators" => {
                let g = Generators::create::<CS>(get_usize(a, "count"), Some(CS::API_ID));
                format!("{}", g.values.len())
            }
            _ => "unknown entry".to_string(),
        }
    });
    r
}

pub fn replay_op(a: &Args) -> (bool, String, String) {
    let entry = get(a, "entry").to_string();
    let r = if get(a, "suite") == "shk" { op_generic::<Bls12381Shake256>(a) } else { op_generic::<Bls12381Sha256>(a) };
    match r {
        Err(p) => (true, format!("{}:{}", entry, norm_panic(&p)), format!("real {} panicked: {}", entry, p)),
        Ok(s) => {
            // queries that require a refusal (e.g. malformed commitment-with-proof): success is the violation
            if get(a, "expect_err") == "true" && s == "true" {
                (true, format!("{}:accepted-malformed-input", entry), format!("real {} returned Ok on an input it must refuse", entry))
            } else {
                (false, format!("{}:returned", entry), format!("real {} returned normally ({})", entry, s))
            }
        }
    }
}
