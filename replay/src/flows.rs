//! Real-build replay of the contract harnesses: the counterexample's public inputs (suite, message
//! octets, header shape, positions) are re-run through the real API with honest keys, and the
//! property is re-evaluated there, using the fixture-validated reference as the oracle.
use crate::reference as rf;
use crate::*;
use bls12_381_plus::{G1Projective, G2Projective, Scalar};
use elliptic_curve::group::Curve;
use elliptic_curve::hash2curve::ExpandMsg;
use zkryptium::bbsplus::ciphersuites::{BbsCiphersuite, Bls12381Sha256, Bls12381Shake256};
use zkryptium::keys::pair::KeyPair;
use zkryptium::schemes::algorithms::BBSplus;
use zkryptium::schemes::generics::{BlindSignature, Commitment, PoKSignature, Signature};

/// parses "[[1, 2], [3]]"
pub fn get_nested(a: &Args, k: &str) -> Vec<Vec<u8>> {
    let s = get(a, k).trim();
    let s = s.strip_prefix('[').unwrap_or(s);
    let s = s.strip_suffix(']').unwrap_or(s);
    let mut out = Vec::new();
    let mut cur = String::new();
    let mut depth = 0;
    for ch in s.chars() {
        match ch {
            '[' => {
                depth += 1;
                cur.clear();
            }
            ']' => {
                depth -= 1;
                out.push(cur.split(',').filter_map(|x| x.trim().parse::<u8>().ok()).collect());
                cur.clear();
            }
            _ => {
                if depth > 0 {
                    cur.push(ch)
                }
            }
        }
    }
    out
}
fn opt_bytes(a: &Args, k: &str) -> Option<Vec<u8>> {
    get_opt(a, k).map(|s| s.trim_start_matches('[').trim_end_matches(']').split(',').filter_map(|x| x.trim().parse::<u8>().ok()).collect())
}

pub fn ref_sign<X>(su: &rf::RefSuite, p1hex: &str, sk: &Scalar, msgs: &[Vec<u8>], hdr: &[u8]) -> Vec<u8>
where
    X: for<'a> ExpandMsg<'a>,
{
    let api = su.api_id(false);
    let pk = G2Projective::GENERATOR * *sk;
    let gens = rf::create_generators::<X>(msgs.len() + 1, &api);
    let ms = rf::map_all::<X>(msgs, &api);
    let dom = rf::domain::<X>(&pk, &gens[0], &gens[1..], &api, hdr);
    let e = rf::sign_e::<X>(sk, &ms, &dom, &api);
    let p1 = G1Projective::from_compressed_hex(p1hex).unwrap();
    let b = rf::b_value(&p1, &gens[0], &gens[1..], &dom, &ms);
    let a = b * (*sk + e).invert().unwrap();
    let mut sig = a.to_affine().to_compressed().to_vec();
    sig.extend_from_slice(&e.to_be_bytes());
    sig
}

fn sigflow<CS: BbsCiphersuite>(a: &Args, su: &rf::RefSuite) -> Result<Option<String>, String>
where
    CS::Expander: for<'x> ExpandMsg<'x>,
{
    let msgs = get_nested(a, "msgs");
    let hdr = opt_bytes(a, "hdr");
    let mnone = get(a, "msgs_none") == "true";
    guarded(|| -> Option<String> {
        let kp = KeyPair::<BBSplus<CS>>::generate(&[0x42u8; 40], Some(b"replay"), None).unwrap();
        let (sk, pk) = (kp.private_key().clone(), kp.public_key().clone());
        let m_arg: Option<&[Vec<u8>]> = if mnone { None } else { Some(&msgs) };
        let s = match Signature::<BBSplus<CS>>::sign(m_arg, &sk, &pk, hdr.as_deref()) {
            Ok(s) => s,
            Err(e) => return Some(format!("sign failed: {}", e)),
        };
        let want = ref_sign::<CS::Expander>(su, CS::P1, &sk.0, &msgs, hdr.as_deref().unwrap_or(&[]));
        if s.to_bytes().to_vec() != want {
            return Some("signature octets differ from the reference (draft-08) signature".into());
        }
        if s.verify(&pk, m_arg, hdr.as_deref()).is_err() {
            return Some("freshly made signature does not verify".into());
        }
        let s2 = match Signature::<BBSplus<CS>>::from_bytes(&s.to_bytes()) {
            Ok(x) => x,
            Err(_) => return Some("signature does not decode from its own octets".into()),
        };
        if s2.verify(&pk, Some(&msgs), hdr.as_deref()).is_err() {
            return Some("signature does not verify after the 80-octet round trip".into());
        }
        // None / empty equivalences
        let empty: Vec<Vec<u8>> = vec![];
        if msgs.is_empty() {
            for ma in [None, Some(&empty[..])] {
                if s.verify(&pk, ma, hdr.as_deref()).is_err() {
                    return Some("None / empty message list are not equivalent".into());
                }
            }
        }
        if hdr.as_deref().unwrap_or(&[]).is_empty() {
            for h in [None, Some(&b""[..])] {
                if s.verify(&pk, Some(&msgs), h).is_err() {
                    return Some("absent / empty header are not equivalent".into());
                }
            }
        }
        // binding: single edits must be rejected
        for i in 0..msgs.len() {
            let mut m2 = msgs.clone();
            m2[i].push(0x5a);
            if s.verify(&pk, Some(&m2), hdr.as_deref()).is_ok() {
                return Some(format!("signature still verifies after altering message {}", i));
            }
        }
        if !msgs.is_empty() {
            let m2 = msgs[..msgs.len() - 1].to_vec();
            if s.verify(&pk, Some(&m2), hdr.as_deref()).is_ok() {
                return Some("signature still verifies after removing the last message".into());
            }
        }
        let mut m3 = msgs.clone();
        m3.push(vec![1]);
        if s.verify(&pk, Some(&m3), hdr.as_deref()).is_ok() {
            return Some("signature still verifies after appending a message".into());
        }
        let mut h2 = hdr.clone().unwrap_or_default();
        h2.push(7);
        if s.verify(&pk, Some(&msgs), Some(&h2)).is_ok() {
            return Some("signature still verifies with a different header".into());
        }
        let kp2 = KeyPair::<BBSplus<CS>>::generate(&[0x43u8; 40], None, None).unwrap();
        if s.verify(kp2.public_key(), Some(&msgs), hdr.as_deref()).is_ok() {
            return Some("signature verifies under another public key".into());
        }
        // every single-bit flip of the 80 signature octets must be refused by the decoder or by verify
        let enc = s.to_bytes();
        for k in 0..640usize {
            let mut t = enc;
            t[k / 8] ^= 1u8 << (k % 8);
            if let Ok(s3) = Signature::<BBSplus<CS>>::from_bytes(&t) {
                if s3.verify(&pk, Some(&msgs), hdr.as_deref()).is_ok() {
                    return Some(format!("signature with bit {} of octet {} flipped still verifies", k % 8, k / 8));
                }
            }
        }
        None
    })
}

fn update<CS: BbsCiphersuite>(a: &Args, su: &rf::RefSuite) -> Result<Option<String>, String>
where
    CS::Expander: for<'x> ExpandMsg<'x>,
{
    let n = get(a, "n").parse::<usize>().unwrap_or(0);
    let ui = get(a, "ui").parse::<usize>().unwrap_or(0);
    let (old, new) = (get_bytes(a, "old"), get_bytes(a, "new"));
    guarded(|| -> Option<String> {
        let kp = KeyPair::<BBSplus<CS>>::generate(&[0x42u8; 40], None, None).unwrap();
        let (sk, pk) = (kp.private_key().clone(), kp.public_key().clone());
        let mut msgs: Vec<Vec<u8>> = (0..n).map(|i| vec![0x30 + i as u8, 0x77]).collect();
        if ui < n {
            msgs[ui] = old.clone();
        }
        let s = Signature::<BBSplus<CS>>::sign(Some(&msgs), &sk, &pk, Some(b"hdr")).unwrap();
        let r = s.update_signature(&sk, &old, &new, ui, n);
        if ui >= n {
            return if r.is_err() { None } else { Some("out-of-range position accepted".into()) };
        }
        let s2 = match r {
            Ok(x) => x,
            Err(e) => return Some(format!("valid update refused: {}", e)),
        };
        let mut m2 = msgs.clone();
        m2[ui] = new.clone();
        if s2.verify(&pk, Some(&m2), Some(b"hdr")).is_err() {
            return Some("updated signature does not verify for the updated vector".into());
        }
        let want = ref_sign::<CS::Expander>(su, CS::P1, &sk.0, &m2, b"hdr");
        if s2.e() != s.e() || s2.to_bytes()[..48] != rf_a_for(&want, &s, &sk.0, su, CS::P1, &m2)[..] {
            return Some("updated signature differs from B(updated vector)/(sk+e)".into());
        }
        if old != new && s2.verify(&pk, Some(&msgs), Some(b"hdr")).is_ok() {
            return Some("updated signature still verifies for the previous vector".into());
        }
        None
    })
}
/// A' expected for the SAME exponent e as the original signature: B(m2)/(sk+e)
fn rf_a_for<CSX>(_want: &[u8], s: &CSX, sk: &Scalar, su: &rf::RefSuite, p1hex: &str, m2: &[Vec<u8>]) -> Vec<u8>
where
    CSX: SigLike,
{
    s.expected_a(sk, su, p1hex, m2)
}
pub trait SigLike {
    fn expected_a(&self, sk: &Scalar, su: &rf::RefSuite, p1hex: &str, m2: &[Vec<u8>]) -> Vec<u8>;
}
impl<CS: BbsCiphersuite> SigLike for Signature<BBSplus<CS>>
where
    CS::Expander: for<'x> ExpandMsg<'x>,
{
    fn expected_a(&self, sk: &Scalar, su: &rf::RefSuite, p1hex: &str, m2: &[Vec<u8>]) -> Vec<u8> {
        let api = su.api_id(false);
        let pk = G2Projective::GENERATOR * *sk;
        let gens = rf::create_generators::<CS::Expander>(m2.len() + 1, &api);
        let ms = rf::map_all::<CS::Expander>(m2, &api);
        let dom = rf::domain::<CS::Expander>(&pk, &gens[0], &gens[1..], &api, b"hdr");
        let p1 = G1Projective::from_compressed_hex(p1hex).unwrap();
        let b = rf::b_value(&p1, &gens[0], &gens[1..], &dom, &ms);
        (b * (*sk + self.e()).invert().unwrap()).to_affine().to_compressed().to_vec()
    }
}

fn proofflow<CS: BbsCiphersuite>(a: &Args) -> Result<Option<String>, String>
where
    CS::Expander: for<'x> ExpandMsg<'x>,
{
    let msgs = get_nested(a, "msgs");
    let hdr = opt_bytes(a, "hdr");
    let ph = opt_bytes(a, "ph");
    let idx = get_usizes(a, "idx");
    let edit = get_usize(a, "edit");
    guarded(|| -> Option<String> {
        let kp = KeyPair::<BBSplus<CS>>::generate(&[0x42u8; 40], None, None).unwrap();
        let (sk, pk) = (kp.private_key().clone(), kp.public_key().clone());
        let sig = Signature::<BBSplus<CS>>::sign(Some(&msgs), &sk, &pk, hdr.as_deref()).unwrap();
        let p = match PoKSignature::<BBSplus<CS>>::proof_gen(&pk, &sig.to_bytes(), hdr.as_deref(), ph.as_deref(), Some(&msgs), Some(&idx)) {
            Ok(p) => p,
            Err(e) => return Some(format!("proof_gen failed: {}", e)),
        };
        let mut d = idx.clone();
        d.sort();
        d.dedup();
        let u = msgs.len() - d.len();
        let enc = p.to_bytes();
        if enc.len() != 272 + 32 * u {
            return Some(format!("proof length {} != 272 + 32 * {}", enc.len(), u));
        }
        let p2 = match PoKSignature::<BBSplus<CS>>::from_bytes(&enc) {
            Ok(x) => x,
            Err(_) => return Some("proof does not decode from its own octets".into()),
        };
        let dm: Vec<Vec<u8>> = d.iter().map(|i| msgs[*i].clone()).collect();
        // honest verification (with the presentation of the index list the prover used and the sorted one)
        for il in [&idx, &d] {
            if p2.proof_verify(&pk, Some(&dm), Some(il), hdr.as_deref(), ph.as_deref()).is_err() {
                return Some("honest proof rejected".into());
            }
        }
        // edits must be rejected
        if !dm.is_empty() {
            let mut dm2 = dm.clone();
            dm2[0].push(0x5a);
            if p2.proof_verify(&pk, Some(&dm2), Some(&d), hdr.as_deref(), ph.as_deref()).is_ok() {
                return Some("proof verifies with an altered disclosed message".into());
            }
            if let Some(k) = (0..msgs.len()).find(|k| !d.contains(k)) {
                let mut d2 = d.clone();
                d2[0] = k;
                if p2.proof_verify(&pk, Some(&dm), Some(&d2), hdr.as_deref(), ph.as_deref()).is_ok() {
                    return Some("proof verifies with a disclosed message claimed at another position".into());
                }
            }
        }
        let mut h2 = hdr.clone().unwrap_or_default();
        h2.push(7);
        if p2.proof_verify(&pk, Some(&dm), Some(&d), Some(&h2), ph.as_deref()).is_ok() {
            return Some("proof verifies with another header".into());
        }
        // surplus, never-signed disclosed messages must be refused
        let mut dm3 = dm.clone();
        dm3.push(vec![0xEE]);
        if p2.proof_verify(&pk, Some(&dm3), Some(&d), hdr.as_deref(), ph.as_deref()).is_ok() {
            return Some("proof verifies for a statement with a surplus disclosed message".into());
        }
        // a plain proof must not be accepted by the blind verifier
        if p2.blind_proof_verify(&pk, hdr.as_deref(), ph.as_deref(), None, Some(&dm), None, Some(&d), None).is_ok() {
            return Some("plain proof accepted by blind_proof_verify".into());
        }
        let mut ph2 = ph.clone().unwrap_or_default();
        ph2.push(7);
        if p2.proof_verify(&pk, Some(&dm), Some(&d), hdr.as_deref(), Some(&ph2)).is_ok() {
            return Some("proof verifies with another presentation header".into());
        }
        let _ = edit;
        None
    })
}

fn blindflow<CS: BbsCiphersuite>(a: &Args) -> Result<Option<String>, String>
where
    CS::Expander: for<'x> ExpandMsg<'x>,
{
    let msgs = get_nested(a, "msgs");
    let cmsgs = get_nested(a, "cmsgs");
    let hdr = opt_bytes(a, "hdr");
    guarded(|| -> Option<String> {
        let kp = KeyPair::<BBSplus<CS>>::generate(&[0x42u8; 40], None, None).unwrap();
        let (sk, pk) = (kp.private_key().clone(), kp.public_key().clone());
        let (c, blind) = match Commitment::<BBSplus<CS>>::commit(Some(&cmsgs)) {
            Ok(x) => x,
            Err(e) => return Some(format!("commit failed: {}", e)),
        };
        let cb = c.to_bytes();
        if cb.len() != 112 + 32 * cmsgs.len() {
            return Some("serialized commitment has the wrong length".into());
        }
        let s = match BlindSignature::<BBSplus<CS>>::blind_sign(&sk, &pk, Some(&cb), hdr.as_deref(), Some(&msgs)) {
            Ok(s) => s,
            Err(e) => return Some(format!("blind_sign refused an honest commitment: {}", e)),
        };
        if s.verify_blind_sign(&pk, hdr.as_deref(), Some(&msgs), Some(&cmsgs), Some(&blind)).is_err() {
            return Some("honest blind signature rejected".into());
        }
        // tampered commitments must be refused: every single-bit flip of a few octets in every segment
        let mut positions = vec![0usize, 47, 48 + 31, cb.len() - 1];
        if cmsgs.len() > 0 {
            positions.push(48 + 32 + 31);
        }
        for pos in positions {
            for bit in 0..8 {
                let mut t = cb.clone();
                t[pos] ^= 1 << bit;
                if BlindSignature::<BBSplus<CS>>::blind_sign(&sk, &pk, Some(&t), hdr.as_deref(), Some(&msgs)).is_ok() {
                    return Some(format!("blind_sign accepted a commitment with bit {} of octet {} flipped", bit, pos));
                }
            }
        }
        // bound artefacts
        if !cmsgs.is_empty() {
            let mut c2 = cmsgs.clone();
            c2[0].push(0x5a);
            if s.verify_blind_sign(&pk, hdr.as_deref(), Some(&msgs), Some(&c2), Some(&blind)).is_ok() {
                return Some("blind signature verifies with an altered committed message".into());
            }
        }
        if !msgs.is_empty() {
            let mut m2 = msgs.clone();
            m2[0].push(0x5a);
            if s.verify_blind_sign(&pk, hdr.as_deref(), Some(&m2), Some(&cmsgs), Some(&blind)).is_ok() {
                return Some("blind signature verifies with an altered signer message".into());
            }
        }
        let mut h2 = hdr.clone().unwrap_or_default();
        h2.push(7);
        if s.verify_blind_sign(&pk, Some(&h2), Some(&msgs), Some(&cmsgs), Some(&blind)).is_ok() {
            return Some("blind signature verifies with another header".into());
        }
        let other = zkryptium::bbsplus::commitment::BlindFactor::random();
        if s.verify_blind_sign(&pk, hdr.as_deref(), Some(&msgs), Some(&cmsgs), Some(&other)).is_ok() {
            return Some("blind signature verifies with another blinding factor".into());
        }
        None
    })
}

fn blindproofflow<CS: BbsCiphersuite>(a: &Args) -> Result<Option<String>, String>
where
    CS::Expander: for<'x> ExpandMsg<'x>,
{
    let msgs = get_nested(a, "msgs");
    let cmsgs = get_nested(a, "cmsgs");
    let hdr = opt_bytes(a, "hdr");
    guarded(|| -> Option<String> {
        let kp = KeyPair::<BBSplus<CS>>::generate(&[0x42u8; 40], None, None).unwrap();
        let (sk, pk) = (kp.private_key().clone(), kp.public_key().clone());
        let (c, blind) = Commitment::<BBSplus<CS>>::commit(Some(&cmsgs)).ok()?;
        let s = BlindSignature::<BBSplus<CS>>::blind_sign(&sk, &pk, Some(&c.to_bytes()), hdr.as_deref(), Some(&msgs)).ok()?;
        let (l, m) = (msgs.len(), cmsgs.len());
        // every pair of disclosure choices for these small shapes
        for mask1 in 0..(1usize << l) {
            for mask2 in 0..(1usize << m) {
                let i1: Vec<usize> = (0..l).filter(|i| (mask1 >> i) & 1 == 1).collect();
                let i2: Vec<usize> = (0..m).filter(|i| (mask2 >> i) & 1 == 1).collect();
                let p = match PoKSignature::<BBSplus<CS>>::blind_proof_gen(&pk, &s.to_bytes(), hdr.as_deref(), None, Some(&msgs), Some(&cmsgs), Some(&i1), Some(&i2), Some(&blind)) {
                    Ok(p) => p,
                    Err(e) => return Some(format!("blind_proof_gen failed for signer indexes {:?}, committed indexes {:?}: {}", i1, i2, e)),
                };
                let d1: Vec<Vec<u8>> = i1.iter().map(|i| msgs[*i].clone()).collect();
                let d2: Vec<Vec<u8>> = i2.iter().map(|i| cmsgs[*i].clone()).collect();
                if p.blind_proof_verify(&pk, hdr.as_deref(), None, Some(l), Some(&d1), Some(&d2), Some(&i1), Some(&i2)).is_err() {
                    return Some(format!("honest blind proof rejected for signer indexes {:?}, committed indexes {:?}", i1, i2));
                }
                if !d2.is_empty() {
                    let mut d2x = d2.clone();
                    d2x[0].push(0x5a);
                    if p.blind_proof_verify(&pk, hdr.as_deref(), None, Some(l), Some(&d1), Some(&d2x), Some(&i1), Some(&i2)).is_ok() {
                        return Some("blind proof verifies with an altered disclosed committed message".into());
                    }
                }
            }
        }
        None
    })
}

pub fn replay_flow(a: &Args) -> (bool, String, String) {
    let kind = get(a, "kind").to_string();
    let shk = get(a, "suite") == "shk";
    let r = match (kind.as_str(), shk) {
        ("sigflow", false) => sigflow::<Bls12381Sha256>(a, &rf::SHA),
        ("sigflow", true) => sigflow::<Bls12381Shake256>(a, &rf::SHAKE),
        ("update", false) => update::<Bls12381Sha256>(a, &rf::SHA),
        ("proofflow", false) => proofflow::<Bls12381Sha256>(a),
        ("proofflow", true) => proofflow::<Bls12381Shake256>(a),
        ("blindflow", false) => blindflow::<Bls12381Sha256>(a),
        ("blindflow", true) => blindflow::<Bls12381Shake256>(a),
        ("blindproofflow", false) => blindproofflow::<Bls12381Sha256>(a),
        ("blindproofflow", true) => blindproofflow::<Bls12381Shake256>(a),
        (_, _) => update::<Bls12381Shake256>(a, &rf::SHAKE),
    };
    match r {
        Err(p) => (true, format!("{}:panic", kind), format!("real build panicked: {}", p)),
        Ok(Some(d)) => (true, format!("{}:property-violated", kind), d),
        Ok(None) => (false, format!("{}:holds", kind), "property holds on the real build for the transported inputs".into()),
    }
}
