//! Real-build replay of the unit conformance harnesses (C10/C11): zkryptium (real crates) against the
//! reference transcription compiled against the same real crates.
use crate::reference as rf;
use crate::*;
use bls12_381_plus::{G1Projective, G2Projective, Scalar};
use elliptic_curve::hash2curve::ExpandMsg;
use zkryptium::bbsplus::ciphersuites::{BbsCiphersuite, Bls12381Sha256, Bls12381Shake256};
use zkryptium::bbsplus::generators::Generators;
use zkryptium::keys::pair::KeyPair;
use zkryptium::schemes::algorithms::BBSplus;
use zkryptium::utils::message::bbsplus_message::BBSplusMessage;
use zkryptium::utils::util::bbsplus_utils::{calculate_blind_challenge, hash_to_scalar, i2osp};

fn opt_bytes(a: &Args, k: &str) -> Option<Vec<u8>> {
    get_opt(a, k).map(|s| s.trim_start_matches('[').trim_end_matches(']').split(',').filter_map(|x| x.trim().parse::<u8>().ok()).collect())
}

fn unit<CS: BbsCiphersuite>(a: &Args, suite: &rf::RefSuite) -> Result<(bool, String), String>
where
    CS::Expander: for<'x> ExpandMsg<'x>,
{
    let u = get(a, "unit").to_string();
    guarded(|| -> (bool, String) {
        match u.as_str() {
            "i2osp8" => {
                let x = get(a, "x").parse::<usize>().unwrap_or(0);
                (i2osp::<8>(x) != (x as u64).to_be_bytes(), format!("x={}", x))
            }
            "i2osp2" => {
                let x = get(a, "x").parse::<usize>().unwrap_or(0);
                let g = i2osp::<2>(x);
                (g != (x as u16).to_be_bytes(), format!("x={}", x))
            }
            "h2s" => {
                let (m, d) = (get_bytes(a, "msg"), get_bytes(a, "dst"));
                let r = hash_to_scalar::<CS>(&m, &d);
                if d.len() > 255 {
                    (r.is_ok(), "dst > 255 accepted".into())
                } else {
                    (r.is_err() || r.unwrap() != rf::h2s::<CS::Expander>(&m, &d), "hash_to_scalar != reference".into())
                }
            }
            "keygen" => {
                let ikm = get_bytes(a, "ikm");
                let ki = opt_bytes(a, "key_info");
                let kd = opt_bytes(a, "key_dst");
                let r = KeyPair::<BBSplus<CS>>::generate(&ikm, ki.as_deref(), kd.as_deref());
                if ikm.len() < 32 {
                    return (r.is_ok(), "short ikm accepted".into());
                }
                let api = suite.api_id(false);
                let kiv = ki.clone().unwrap_or_default();
                let dd = rf::cat(&[&api, b"KEYGEN_DST_"]);
                let dst: Vec<u8> = kd.clone().unwrap_or(dd);
                let inp = rf::cat(&[&ikm, &rf::i2osp2(kiv.len()), &kiv]);
                let sk = rf::h2s::<CS::Expander>(&inp, &dst);
                match r {
                    Err(_) => (true, "KeyGen failed".into()),
                    Ok(kp) => (kp.private_key().0 != sk || kp.public_key().0 != G2Projective::GENERATOR * sk, "KeyGen != reference".into()),
                }
            }
            "keygen_limits" => {
                let r = KeyPair::<BBSplus<CS>>::generate(&[7u8; 32], Some(&vec![0u8; 65536]), None);
                (r.is_ok(), "key_info > 65535 accepted".into())
            }
            "gens" => {
                let n = get_usize(a, "n");
                let api = opt_bytes(a, "api");
                let g = Generators::create::<CS>(n, api.as_deref());
                let want = rf::create_generators::<CS::Expander>(n, &api.clone().unwrap_or_default());
                let p1 = G1Projective::from_compressed_hex(CS::P1).unwrap();
                (g.values != want || g.g1_base_point != p1 || CS::API_ID != &suite.api_id(false)[..] || CS::API_ID_BLIND != &suite.api_id(true)[..],
                 "generators / api_id constants != reference".into())
            }
            "gens_history" => {
                let (k1, k2) = (get_usize(a, "k1"), get_usize(a, "k2"));
                let api = suite.api_id(false);
                let g1 = Generators::create::<CS>(k1, Some(&api));
                let g2 = Generators::create::<CS>(k2, Some(&api));
                let want = rf::create_generators::<CS::Expander>(k1.max(k2), &api);
                (g1.values[..] != want[..k1] || g2.values[..] != want[..k2], "generators depend on request history".into())
            }
            "m2s" => {
                let m = get_bytes(a, "msg");
                let api = suite.api_id(get(a, "blind") == "true");
                let r = BBSplusMessage::messages_to_scalar::<CS>(&[m.clone()], &api);
                let r1 = BBSplusMessage::map_message_to_scalar_as_hash::<CS>(&m, &api);
                let want = rf::map_to_scalar::<CS::Expander>(&m, &api);
                (r.is_err() || r1.is_err() || r.unwrap()[0].value != want || r1.unwrap().value != want, "message scalar != reference".into())
            }
            "blind_challenge" => {
                let m1 = get_usize(a, "m1");
                let gens: Vec<G1Projective> = (0..m1).map(|i| G1Projective::GENERATOR * Scalar::from(3 + i as u64)).collect();
                let c = G1Projective::GENERATOR * Scalar::from(get_usize(a, "c") as u64);
                let cbar = G1Projective::GENERATOR * Scalar::from(get_usize(a, "cbar") as u64);
                let api = suite.api_id(true);
                let r = calculate_blind_challenge::<CS>(c, cbar, &gens, Some(&api));
                if m1 == 0 {
                    (r.is_ok(), "no generators accepted".into())
                } else {
                    let want = rf::h2s::<CS::Expander>(&rf::blind_challenge_bytes(&gens, &c, &cbar), &rf::cat(&[&api, b"H2S_"]));
                    (r.is_err() || r.unwrap() != want, "blind challenge != reference".into())
                }
            }
            _ => (false, "unknown unit".into()),
        }
    })
}

pub fn replay_unit(a: &Args) -> (bool, String, String) {
    let u = get(a, "unit").to_string();
    let r = if get(a, "suite") == "shk" { unit::<Bls12381Shake256>(a, &rf::SHAKE) } else { unit::<Bls12381Sha256>(a, &rf::SHA) };
    match r {
        Err(p) => (true, format!("{}:panic", u), format!("real {} panicked: {}", u, p)),
        Ok((bad, d)) => (bad, format!("{}:differs-from-reference", u), d),
    }
}
