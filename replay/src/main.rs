//! Real-build replay: re-instantiates a solver counterexample (found in the model group) with the
//! real bls12_381_plus / SHA-256 / SHAKE-256 and re-evaluates the property on the real crate.
//! Input: the TRANSPORT lines printed by the harness under `cargo kani playback` (stdin).
//! Output: one line `REPLAY reproduced=<true|false> key=<finding key> detail=<text>`.
#![allow(non_snake_case)]
use std::collections::HashMap;
use std::io::Read;
use std::panic::{catch_unwind, AssertUnwindSafe};

mod xlate;
mod ops;
mod units;
mod flows;
mod fixtures;
#[path = "../../harness/src/reference.rs"]
mod reference;

pub type Args = HashMap<String, String>;

pub fn get<'a>(a: &'a Args, k: &str) -> &'a str {
    a.get(k).map(|s| s.as_str()).unwrap_or("")
}
pub fn get_usize(a: &Args, k: &str) -> usize {
    get(a, k).trim().parse::<usize>().unwrap_or(0)
}
/// parses "[1, 2, 3]"
pub fn get_list(a: &Args, k: &str) -> Vec<u128> {
    let s = get(a, k).trim().trim_start_matches('[').trim_end_matches(']');
    s.split(',').filter_map(|x| x.trim().parse::<u128>().ok()).collect()
}
pub fn get_bytes(a: &Args, k: &str) -> Vec<u8> {
    get_list(a, k).into_iter().map(|x| x as u8).collect()
}
pub fn get_usizes(a: &Args, k: &str) -> Vec<usize> {
    get_list(a, k).into_iter().map(|x| x as usize).collect()
}
/// parses `None` / `Some(5)` / `Some([1, 2])`
pub fn get_opt(a: &Args, k: &str) -> Option<String> {
    let s = get(a, k).trim();
    if s == "None" || s.is_empty() {
        None
    } else {
        Some(s.trim_start_matches("Some(").trim_end_matches(')').to_string())
    }
}

pub fn guarded<F: FnOnce() -> R, R>(f: F) -> Result<R, String> {
    catch_unwind(AssertUnwindSafe(f)).map_err(|e| {
        if let Some(s) = e.downcast_ref::<String>() {
            s.clone()
        } else if let Some(s) = e.downcast_ref::<&str>() {
            s.to_string()
        } else {
            "panic".to_string()
        }
    })
}

fn main() {
    if std::env::args().nth(1).as_deref() == Some("fixtures") {
        std::process::exit(fixtures::run());
    }
    std::panic::set_hook(Box::new(|_| {}));
    let mut txt = String::new();
    std::io::stdin().read_to_string(&mut txt).unwrap();
    let mut a: Args = HashMap::new();
    for line in txt.lines() {
        if let Some(rest) = line.trim().strip_prefix("TRANSPORT ") {
            if let Some((k, v)) = rest.split_once('=') {
                a.insert(k.trim().to_string(), v.trim().trim_matches('"').to_string());
            }
        }
    }
    let kind = get(&a, "kind").to_string();
    let (rep, key, detail) = match kind.as_str() {
        "dec" => ops::replay_dec(&a),
        "canon" => ops::replay_canon(&a),
        "op" => ops::replay_op(&a),
        "unit" => units::replay_unit(&a),
        "sigflow" | "update" | "proofflow" | "blindflow" | "blindproofflow" => flows::replay_flow(&a),
        _ => (false, "unknown".to_string(), format!("unknown transport kind '{}'", kind)),
    };
    println!("REPLAY reproduced={} key={} detail={}", rep, key, detail.replace('\n', " "));
}
