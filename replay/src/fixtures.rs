//! Validation of the reference transcription against every IETF fixture file in /repo
//! (keypair, generators, h2s, MapMessageToScalarAsHash, signatures) for both suites, on the real crates.
use crate::reference as rf;
use bls12_381_plus::{G1Projective, G2Projective, Scalar};
use elliptic_curve::hash2curve::{ExpandMsg, ExpandMsgXmd, ExpandMsgXof};
use elliptic_curve::group::Curve;

fn hx(v: &serde_json::Value) -> Vec<u8> {
    hex::decode(v.as_str().unwrap_or("")).unwrap_or_default()
}
fn load(p: &str) -> Option<serde_json::Value> {
    std::fs::read_to_string(p).ok().and_then(|s| serde_json::from_str(&s).ok())
}

fn suite<X>(dir: &str, su: &rf::RefSuite, p1_hex: &str) -> (usize, usize)
where
    X: for<'a> ExpandMsg<'a>,
{
    let (mut ok, mut bad) = (0usize, 0usize);
    let mut chk = |c: bool, what: &str| {
        if c {
            ok += 1
        } else {
            bad += 1;
            println!("FIXTURE MISMATCH {} {}", dir, what);
        }
    };
    let api = su.api_id(false);
    if let Some(d) = load(&format!("{}/keypair.json", dir)) {
        let (ikm, ki, kd) = (hx(&d["keyMaterial"]), hx(&d["keyInfo"]), hx(&d["keyDst"]));
        let sk = rf::h2s::<X>(&rf::cat(&[&ikm, &rf::i2osp2(ki.len()), &ki]), &kd);
        chk(sk.to_be_bytes().to_vec() == hx(&d["keyPair"]["secretKey"]), "keypair sk");
        chk((G2Projective::GENERATOR * sk).to_affine().to_compressed().to_vec() == hx(&d["keyPair"]["publicKey"]), "keypair pk");
        chk(kd == rf::cat(&[&api, b"KEYGEN_DST_"]), "default key dst");
    }
    if let Some(d) = load(&format!("{}/generators.json", dir)) {
        let n = d["MsgGenerators"].as_array().map(|a| a.len()).unwrap_or(0);
        let g = rf::create_generators::<X>(n + 1, &api);
        chk(g[0].to_affine().to_compressed().to_vec() == hx(&d["Q1"]), "Q1");
        for i in 0..n {
            chk(g[i + 1].to_affine().to_compressed().to_vec() == hx(&d["MsgGenerators"][i]), "H_i");
        }
        chk(hx(&d["P1"]) == hex::decode(p1_hex).unwrap(), "P1");
    }
    if let Some(d) = load(&format!("{}/h2s.json", dir)) {
        chk(rf::h2s::<X>(&hx(&d["message"]), &hx(&d["dst"])).to_be_bytes().to_vec() == hx(&d["scalar"]), "h2s");
    }
    if let Some(d) = load(&format!("{}/MapMessageToScalarAsHash.json", dir)) {
        chk(hx(&d["dst"]) == rf::cat(&[&api, b"MAP_MSG_TO_SCALAR_AS_HASH_"]), "map dst");
        for c in d["cases"].as_array().unwrap_or(&vec![]) {
            chk(rf::map_to_scalar::<X>(&hx(&c["message"]), &api).to_be_bytes().to_vec() == hx(&c["scalar"]), "map scalar");
        }
    }
    let p1 = G1Projective::from_compressed_hex(p1_hex).unwrap();
    for k in 1..=10 {
        if let Some(d) = load(&format!("{}/signature/signature{:03}.json", dir, k)) {
            if d["result"]["valid"].as_bool() != Some(true) {
                continue;
            }
            let skb: [u8; 32] = hx(&d["signerKeyPair"]["secretKey"]).try_into().unwrap();
            let sk = Scalar::from_be_bytes(&skb).unwrap();
            let pk = G2Projective::GENERATOR * sk;
            let msgs: Vec<Vec<u8>> = d["messages"].as_array().unwrap().iter().map(hx).collect();
            let hdr = hx(&d["header"]);
            let gens = rf::create_generators::<X>(msgs.len() + 1, &api);
            let ms = rf::map_all::<X>(&msgs, &api);
            let dom = rf::domain::<X>(&pk, &gens[0], &gens[1..], &api, &hdr);
            let e = rf::sign_e::<X>(&sk, &ms, &dom, &api);
            let b = rf::b_value(&p1, &gens[0], &gens[1..], &dom, &ms);
            let a = b * (sk + e).invert().unwrap();
            let mut sig = a.to_affine().to_compressed().to_vec();
            sig.extend_from_slice(&e.to_be_bytes());
            chk(sig == hx(&d["signature"]), &format!("signature{:03}", k));
        }
    }
    (ok, bad)
}

pub fn run() -> i32 {
    let a = suite::<ExpandMsgXmd<sha2::Sha256>>("/repo/fixture_data/bls12-381-sha-256", &rf::SHA,
        "a8ce256102840821a3e94ea9025e4662b205762f9776b3a766c872b948f1fd225e7c59698588e70d11406d161b4e28c9");
    let b = suite::<ExpandMsgXof<sha3::Shake256>>("/repo/fixture_data/bls12-381-shake-256", &rf::SHAKE,
        "8929dfbc7e6642c4ed9cba0856e493f8b9d7d5fcb0c31ef8fdcd34d50648a56c795e106e9eada6e0bda386b414150755");
    println!("FIXTURES ok={} mismatched={}", a.0 + b.0, a.1 + b.1);
    if a.1 + b.1 == 0 && a.0 + b.0 > 20 { 0 } else { 1 }
}
