//! Translation of octet strings from the model group's codecs to the real BLS12-381 codecs,
//! segment by segment (DESIGN.md §2.8): identity -> identity, valid element v -> v * generator,
//! zero scalar -> zero, valid scalar v -> v, non-canonical scalar -> r + v (>= r), flag bits of a
//! point encoding are carried over literally, anything else -> 0xFF.. (not a field element).
use bls12_381_plus::{G1Projective, G2Projective, Scalar};
use elliptic_curve::group::Curve;

#[derive(Clone, Copy, PartialEq, Eq, Debug)]
pub enum Seg {
    G1,
    G2c,
    G2u,
    S,
}
impl Seg {
    pub fn len(self) -> usize {
        match self {
            Seg::G1 => 48,
            Seg::G2c => 96,
            Seg::G2u => 192,
            Seg::S => 32,
        }
    }
}

pub const R_BE: [u8; 32] = [
    0x73, 0xed, 0xa7, 0x53, 0x29, 0x9d, 0x7d, 0x48, 0x33, 0x39, 0xd8, 0x08, 0x09, 0xa1, 0xd8, 0x05,
    0x53, 0xbd, 0xa4, 0x02, 0xff, 0xfe, 0x5b, 0xfe, 0xff, 0xff, 0xff, 0xff, 0x00, 0x00, 0x00, 0x01,
];

/// layout of a codec for a given total length: full segments, then a literal tail
pub fn layout(codec: &str, len: usize) -> Vec<Seg> {
    let mut v = Vec::new();
    let fixed: &[Seg] = match codec {
        "pk" => &[Seg::G2c],
        "sk" | "blindfactor" => &[Seg::S],
        "sig" => &[Seg::G1, Seg::S],
        "proof" => &[Seg::G1, Seg::G1, Seg::G1],
        "zkpok" => &[],
        "commitment" => &[Seg::G1],
        "coords" => &[Seg::G2u],
        _ => &[],
    };
    let mut used = 0;
    for s in fixed {
        if used + s.len() <= len {
            v.push(*s);
            used += s.len();
        } else {
            return v;
        }
    }
    if matches!(codec, "proof" | "zkpok" | "commitment") {
        while used + 32 <= len {
            v.push(Seg::S);
            used += 32;
        }
    }
    v
}

pub fn xlate(codec: &str, model: &[u8], q: usize) -> Vec<u8> {
    let mut out = Vec::new();
    let mut off = 0;
    for s in layout(codec, model.len()) {
        let m = &model[off..off + s.len()];
        out.extend_from_slice(&seg(s, m, q));
        off += s.len();
    }
    out.extend_from_slice(&model[off..]);
    out
}

fn seg(s: Seg, m: &[u8], _q: usize) -> Vec<u8> {
    let n = m.len();
    match s {
        Seg::S => {
            // model: 30 zero octets, then [0, 0] for zero or [1, v - 1] for a non-zero value v
            let hi_zero = m[..30].iter().all(|b| *b == 0);
            if hi_zero && m[30] == 1 {
                Scalar::from(m[31] as u64 + 1).to_be_bytes().to_vec()
            } else if hi_zero && m[30] == 0 && m[31] == 0 {
                vec![0u8; 32]
            } else if hi_zero {
                // non-canonical in the model: a value >= r in the real field (r + small)
                let mut b = R_BE;
                let add = m[31] as u16 + b[31] as u16;
                b[31] = (add & 0xff) as u8;
                if add > 0xff {
                    b[30] = b[30].wrapping_add(1);
                }
                b.to_vec()
            } else if m[1..30].iter().all(|b| *b == 0) && (m[30] == 1 || (m[30] == 0 && m[31] == 0)) {
                // canonical value whose FIRST octet deviates (e.g. a flipped top bit): the deviation is
                // carried over literally onto the real encoding of the same value
                let mut b = if m[30] == 1 { Scalar::from(m[31] as u64 + 1).to_be_bytes().to_vec() } else { vec![0u8; 32] };
                b[0] ^= m[0];
                b
            } else {
                vec![0xFF; 32]
            }
        }
        Seg::G1 | Seg::G2c | Seg::G2u => {
            // model: identity = [flag_ident, 0..]; element d (1..=256) = [flag_valid, 0.., d-1]
            let mid_zero = m[1..n - 1].iter().all(|b| *b == 0);
            let last = m[n - 1] as usize;
            let flags = m[0];
            let unc = s == Seg::G2u;
            let (canon_ident, canon_valid) = if unc { (0x40u8, 0x00u8) } else { (0xC0u8, 0x80u8) };
            if !mid_zero || (flags & 0x1F) != 0 {
                return vec![0xFF; n];
            }
            let ident = (flags & 0x40) != 0;
            if ident && last != 0 {
                return vec![0xFF; n];
            }
            let (mut real, canon) = if ident {
                let mut r = vec![0u8; n];
                r[0] = canon_ident;
                (r, canon_ident)
            } else {
                let sc = Scalar::from(last as u64 + 1);
                let r = match s {
                    Seg::G1 => (G1Projective::GENERATOR * sc).to_affine().to_compressed().to_vec(),
                    Seg::G2c => (G2Projective::GENERATOR * sc).to_affine().to_compressed().to_vec(),
                    _ => (G2Projective::GENERATOR * sc).to_affine().to_uncompressed().to_vec(),
                };
                (r, canon_valid)
            };
            // carry flag-bit deviations over literally
            real[0] ^= (flags ^ canon) & 0xE0;
            real
        }
    }
}
