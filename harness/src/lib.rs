//! Kani harnesses over the real zkryptium code compiled against the model dependencies.
#![allow(non_snake_case)]
#![allow(dead_code)]
#![allow(unused_imports)]
pub mod common;
pub mod stubs;
pub mod reference;

#[cfg(kani)]
mod h;

#[cfg(test)]
mod native_smoke;
