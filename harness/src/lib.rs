//! Kani harnesses over the real zkryptium code compiled against the model dependencies.
#![allow(non_snake_case)]
#![allow(dead_code)]
pub mod common;

#[cfg(test)]
mod native_smoke;
