//! Independent transcription of draft-irtf-cfrg-bbs-signatures-08 / blind-01 (with the deviations
//! the repository documents as "taken from Grotto"), written only against the dependency API
//! (group operations, expand_message, codecs).  It is the oracle of the contract harnesses (C01-C07,
//! C12) and the differential reference of C10/C11.  It compiles against the model crates (Kani) and
//! against the real crates (fixture validation in /verif/replay).
#![allow(non_snake_case)]
use bls12_381_plus::{G1Projective, G2Projective, Scalar};
use elliptic_curve::hash2curve::{ExpandMsg, Expander};

pub const EXPAND_LEN: usize = 48;

/// I2OSP(x, 8)
pub fn i2osp8(x: usize) -> [u8; 8] {
    (x as u64).to_be_bytes()
}
/// I2OSP(x, 2)
pub fn i2osp2(x: usize) -> [u8; 2] {
    (x as u16).to_be_bytes()
}

pub fn cat(parts: &[&[u8]]) -> Vec<u8> {
    let mut v = Vec::new();
    let mut i = 0;
    while i < parts.len() {
        v.extend_from_slice(parts[i]);
        i += 1;
    }
    v
}

/// hash_to_scalar(msg, dst) = OS2IP(expand_message(msg, dst, 48)) mod r
pub fn h2s<X>(msg: &[u8], dst: &[u8]) -> Scalar
where
    X: for<'a> ExpandMsg<'a>,
{
    let mut okm = [0u8; EXPAND_LEN];
    let dsts = [dst];
    X::expand_message(&[msg], &dsts, EXPAND_LEN).unwrap().fill_bytes(&mut okm);
    Scalar::from_okm(&okm)
}

/// Suite description used by the reference (strings copied from the drafts, not from zkryptium).
pub struct RefSuite {
    pub ciphersuite_id: &'static [u8],
}
pub const SHA: RefSuite = RefSuite { ciphersuite_id: b"BBS_BLS12381G1_XMD:SHA-256_SSWU_RO_" };
pub const SHAKE: RefSuite = RefSuite { ciphersuite_id: b"BBS_BLS12381G1_XOF:SHAKE-256_SSWU_RO_" };

impl RefSuite {
    /// api_id = ciphersuite_id || "H2G_HM2S_"   (blind interface: ciphersuite_id || "BLIND_H2G_HM2S_")
    pub fn api_id(&self, blind: bool) -> Vec<u8> {
        if blind {
            cat(&[self.ciphersuite_id, b"BLIND_H2G_HM2S_"])
        } else {
            cat(&[self.ciphersuite_id, b"H2G_HM2S_"])
        }
    }
}

/// calculate_domain input: PK || I2OSP(L, 8) || Q_1 || H_1..H_L || api_id || I2OSP(len(header), 8) || header
pub fn domain_bytes(pk: &G2Projective, q1: &G1Projective, hs: &[G1Projective], api_id: &[u8], header: &[u8]) -> Vec<u8> {
    let mut v = Vec::new();
    v.extend_from_slice(&pk.to_compressed());
    v.extend_from_slice(&i2osp8(hs.len()));
    v.extend_from_slice(&q1.to_compressed());
    let mut i = 0;
    while i < hs.len() {
        v.extend_from_slice(&hs[i].to_compressed());
        i += 1;
    }
    v.extend_from_slice(api_id);
    v.extend_from_slice(&i2osp8(header.len()));
    v.extend_from_slice(header);
    v
}

pub fn domain<X>(pk: &G2Projective, q1: &G1Projective, hs: &[G1Projective], api_id: &[u8], header: &[u8]) -> Scalar
where
    X: for<'a> ExpandMsg<'a>,
{
    h2s::<X>(&domain_bytes(pk, q1, hs, api_id, header), &cat(&[api_id, b"H2S_"]))
}

/// B = P1 + Q_1 * domain + sum H_i * msg_i
pub fn b_value(p1: &G1Projective, q1: &G1Projective, hs: &[G1Projective], domain: &Scalar, msgs: &[Scalar]) -> G1Projective {
    let mut b = *p1 + *q1 * *domain;
    let mut i = 0;
    while i < msgs.len() {
        b = b + hs[i] * msgs[i];
        i += 1;
    }
    b
}

/// e = hash_to_scalar(serialize((SK, msg_1..msg_L, domain)), api_id || "H2S_")
pub fn sign_e<X>(sk: &Scalar, msgs: &[Scalar], domain: &Scalar, api_id: &[u8]) -> Scalar
where
    X: for<'a> ExpandMsg<'a>,
{
    let mut v = Vec::new();
    v.extend_from_slice(&sk.to_be_bytes());
    let mut i = 0;
    while i < msgs.len() {
        v.extend_from_slice(&msgs[i].to_be_bytes());
        i += 1;
    }
    v.extend_from_slice(&domain.to_be_bytes());
    h2s::<X>(&v, &cat(&[api_id, b"H2S_"]))
}

/// challenge input: I2OSP(R, 8) || (I2OSP(i_j, 8) || msg_{i_j})* || Abar || Bbar || D || T1 || T2 || domain
///                  || I2OSP(len(ph), 8) || ph
pub fn challenge_bytes(
    idx: &[usize], dmsgs: &[Scalar], abar: &G1Projective, bbar: &G1Projective, d: &G1Projective,
    t1: &G1Projective, t2: &G1Projective, domain: &Scalar, ph: &[u8],
) -> Vec<u8> {
    let mut v = Vec::new();
    v.extend_from_slice(&i2osp8(idx.len()));
    let mut i = 0;
    while i < idx.len() {
        v.extend_from_slice(&i2osp8(idx[i]));
        v.extend_from_slice(&dmsgs[i].to_be_bytes());
        i += 1;
    }
    v.extend_from_slice(&abar.to_compressed());
    v.extend_from_slice(&bbar.to_compressed());
    v.extend_from_slice(&d.to_compressed());
    v.extend_from_slice(&t1.to_compressed());
    v.extend_from_slice(&t2.to_compressed());
    v.extend_from_slice(&domain.to_be_bytes());
    v.extend_from_slice(&i2osp8(ph.len()));
    v.extend_from_slice(ph);
    v
}

/// blind challenge input: I2OSP(M, 8) || generators (Q_2, J_1..J_M) || C || Cbar
pub fn blind_challenge_bytes(gens: &[G1Projective], c: &G1Projective, cbar: &G1Projective) -> Vec<u8> {
    let mut v = Vec::new();
    v.extend_from_slice(&i2osp8(gens.len() - 1));
    let mut i = 0;
    while i < gens.len() {
        v.extend_from_slice(&gens[i].to_compressed());
        i += 1;
    }
    v.extend_from_slice(&c.to_compressed());
    v.extend_from_slice(&cbar.to_compressed());
    v
}

/// create_generators(count, api_id) of draft-08 §4.1.1 (hash_to_generator).
pub fn create_generators<X>(count: usize, api_id: &[u8]) -> Vec<G1Projective>
where
    X: for<'a> ExpandMsg<'a>,
{
    let seed_dst = cat(&[api_id, b"SIG_GENERATOR_SEED_"]);
    let generator_dst = cat(&[api_id, b"SIG_GENERATOR_DST_"]);
    let generator_seed = cat(&[api_id, b"MESSAGE_GENERATOR_SEED"]);
    let mut v = [0u8; EXPAND_LEN];
    {
        let dsts = [&seed_dst[..]];
        X::expand_message(&[&generator_seed[..]], &dsts, EXPAND_LEN).unwrap().fill_bytes(&mut v);
    }
    let mut out = Vec::new();
    let mut i = 1;
    while i <= count {
        let inp = cat(&[&v[..], &i2osp8(i)[..]]);
        {
            let dsts = [&seed_dst[..]];
            X::expand_message(&[&inp[..]], &dsts, EXPAND_LEN).unwrap().fill_bytes(&mut v);
        }
        out.push(G1Projective::hash::<X>(&v, &generator_dst));
        i += 1;
    }
    out
}

/// messages_to_scalars: msg_scalar_i = hash_to_scalar(msg_i, api_id || "MAP_MSG_TO_SCALAR_AS_HASH_")
pub fn map_to_scalar<X>(msg: &[u8], api_id: &[u8]) -> Scalar
where
    X: for<'a> ExpandMsg<'a>,
{
    h2s::<X>(msg, &cat(&[api_id, b"MAP_MSG_TO_SCALAR_AS_HASH_"]))
}
pub fn map_all<X>(msgs: &[Vec<u8>], api_id: &[u8]) -> Vec<Scalar>
where
    X: for<'a> ExpandMsg<'a>,
{
    let mut v = Vec::new();
    let mut i = 0;
    while i < msgs.len() {
        v.push(map_to_scalar::<X>(&msgs[i], api_id));
        i += 1;
    }
    v
}

/// Scalar that `hash_to_scalar` derives from an oracle state in the MODEL (used only by the
/// programmed-oracle contract harnesses): the model expander's output stream folded by `from_okm`.
#[cfg(feature = "prog")]
pub fn scalar_of_state(state: u16) -> Scalar {
    let mut okm = [0u8; EXPAND_LEN];
    let mut e = elliptic_curve::hash2curve::ModelExpander { state, ctr: 0 };
    e.fill_bytes(&mut okm);
    Scalar::from_okm(&okm)
}
