pub use bls12_381_plus::{G1Projective, G2Projective, Scalar, Q};
pub use zkryptium::bbsplus::ciphersuites::{BbsCiphersuite, Bls12381Sha256, Bls12381Shake256};
pub use zkryptium::bbsplus::keys::{BBSplusPublicKey, BBSplusSecretKey};
pub use zkryptium::errors::Error;
pub use zkryptium::keys::pair::KeyPair;
pub use zkryptium::schemes::algorithms::BBSplus;
pub use zkryptium::schemes::generics::{BlindSignature, Commitment, PoKSignature, Signature};
