pub use bls12_381_plus::{G1Projective, G2Projective, Scalar, Q};
pub use zkryptium::bbsplus::ciphersuites::{BbsCiphersuite, Bls12381Sha256, Bls12381Shake256};
pub use zkryptium::bbsplus::keys::{BBSplusPublicKey, BBSplusSecretKey};
pub use zkryptium::errors::Error;
pub use zkryptium::keys::pair::KeyPair;
pub use zkryptium::schemes::algorithms::BBSplus;
pub use zkryptium::schemes::generics::{BlindSignature, Commitment, PoKSignature, Signature};

/// Emits one `TRANSPORT key=value` line.  Under symbolic execution Kani's `println!` override
/// discards the formatting, so this costs nothing there; under `cargo kani playback` (concrete
/// counterexample, native run) the lines describe the counterexample for the real-build replay.
#[macro_export]
macro_rules! tp {
    ($k:expr, $v:expr) => {
        println!("TRANSPORT {}={:?}", $k, $v);
    };
}
