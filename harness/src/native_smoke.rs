use crate::common::*;

fn roundtrip<CS: BbsCiphersuite>(ikm: &[u8], header: Option<&[u8]>, msgs: &[Vec<u8>]) -> bool
where
    CS::Expander: for<'a> elliptic_curve::hash2curve::ExpandMsg<'a>,
{
    let kp = KeyPair::<BBSplus<CS>>::generate(ikm, None, None).unwrap();
    let sig = Signature::<BBSplus<CS>>::sign(Some(msgs), kp.private_key(), kp.public_key(), header).unwrap();
    let b = sig.to_bytes();
    let sig2 = Signature::<BBSplus<CS>>::from_bytes(&b).unwrap();
    sig2.verify(kp.public_key(), Some(msgs), header).is_ok()
}

#[test]
fn model_sign_verify() {
    assert!(roundtrip::<Bls12381Sha256>(&[11u8; 32], Some(b"hd"), &[vec![1, 2], vec![3]]));
    assert!(roundtrip::<Bls12381Shake256>(&[13u8; 32], None, &[]));
}

#[test]
fn reference_matches_model_sign() {
    use crate::reference as rf;
    use zkryptium::bbsplus::generators::Generators;
    use zkryptium::utils::message::bbsplus_message::BBSplusMessage;
    type CS = Bls12381Sha256;
    let kp = KeyPair::<BBSplus<CS>>::generate(&[7u8; 32], None, None).unwrap();
    let (sk, pk) = (kp.private_key().clone(), kp.public_key().clone());
    let msgs = vec![vec![5u8], vec![9u8, 1]];
    let hdr = b"h";
    let sig = Signature::<BBSplus<CS>>::sign(Some(&msgs), &sk, &pk, Some(hdr)).unwrap();
    let api = rf::SHA.api_id(false);
    assert_eq!(&api[..], CS::API_ID);
    let g = Generators::create::<CS>(3, Some(CS::API_ID));
    let ms: Vec<_> = BBSplusMessage::messages_to_scalar::<CS>(&msgs, CS::API_ID).unwrap().iter().map(|m| m.value).collect();
    let d = rf::domain::<<CS as BbsCiphersuite>::Expander>(&pk.0, &g.values[0], &g.values[1..], &api, hdr);
    let e = rf::sign_e::<<CS as BbsCiphersuite>::Expander>(&sk.0, &ms, &d, &api);
    let b = rf::b_value(&g.g1_base_point, &g.values[0], &g.values[1..], &d, &ms);
    assert_eq!(sig.e(), e, "e");
    assert_eq!(sig.a() * (sk.0 + e), b, "B");
}

#[test]
fn dbg_values() {
    type CS = Bls12381Sha256;
    for k in 0..6u8 {
        let kp = KeyPair::<BBSplus<CS>>::generate(&[k + 1; 32], None, None).unwrap();
        let sk = kp.private_key().0;
        let e = zkryptium::utils::util::bbsplus_utils::hash_to_scalar::<CS>(&[k, 2, 3], b"abc").unwrap();
        println!("DBG k={} sk={:?} e={:?} sum={:?} inv_is_some={}", k, sk, e, sk + e, bool::from((sk + e).invert().is_some()));
    }
}
