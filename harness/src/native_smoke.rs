use crate::common::*;

fn roundtrip<CS: BbsCiphersuite>(ikm: &[u8], header: Option<&[u8]>, msgs: &[Vec<u8>]) -> bool
where
    CS::Expander: for<'a> elliptic_curve::hash2curve::ExpandMsg<'a>,
{
    let kp = KeyPair::<BBSplus<CS>>::generate(ikm, None, None).unwrap();
    let sig = Signature::<BBSplus<CS>>::sign(Some(msgs), kp.private_key(), kp.public_key(), header).unwrap();
    let b = sig.to_bytes();
    let sig2 = Signature::<BBSplus<CS>>::from_bytes(&b).unwrap();
    sig2.verify(kp.public_key(), Some(msgs), header).is_ok()
}

#[test]
fn model_sign_verify() {
    assert!(roundtrip::<Bls12381Sha256>(&[7u8; 32], Some(b"hd"), &[vec![1, 2], vec![3]]));
    assert!(roundtrip::<Bls12381Shake256>(&[9u8; 32], None, &[]));
}
