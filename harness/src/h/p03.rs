//! C03 / C04 — proof generation and verification with the PROGRAMMED oracle (feature `prog`).
//! One harness runs the real `proof_gen` and then the real `proof_verify` on its output.  The oracle's
//! answers are free symbols; the verifier's queries get the SAME answer as the prover's only where
//! the harness has checked (captured octets) or constructed (same message) that the query is the same,
//! and a FRESH answer where an edit makes the query different.
use crate::common::*;
use crate::reference as rf;
use crate::stubs::{self, sym::*};
use crate::tp;
use crate::h::c01::{any_msgs, opt_shape, rsuite};
use crate::h::p01::{all_dsts_start_with, msg_len, program, H2S_EXTRA, MAP_DST_EXTRA};
use elliptic_curve::model::{oracle, CAP_LEN};
use zkryptium::bbsplus::signature::BBSplusSignature;

/// disclosed index list from a bit mask over L positions; PERM: 0 ascending, 1 descending,
/// 2 ascending with the first entry repeated at the end
pub fn idx_from_mask<const L: usize, const DMASK: usize, const PERM: usize>() -> Vec<usize> {
    let mut v = Vec::new();
    let mut i = 0;
    while i < L {
        if (DMASK >> i) & 1 == 1 {
            v.push(i);
        }
        i += 1;
    }
    if PERM == 1 {
        v.reverse();
    } else if PERM == 2 && v.len() > 0 {
        let f = v[0];
        v.push(f);
    }
    v
}
pub fn sorted_idx<const L: usize, const DMASK: usize>() -> Vec<usize> {
    idx_from_mask::<L, DMASK, 0>()
}

/// first `n` octets of the two captured queries are equal
fn caps_equal(n: usize) -> bool {
    let o = oracle();
    let mut eq = true;
    let mut i = 0;
    while i + 8 <= n {
        eq = eq
            && o.cap[0][i] == o.cap[1][i] && o.cap[0][i + 1] == o.cap[1][i + 1]
            && o.cap[0][i + 2] == o.cap[1][i + 2] && o.cap[0][i + 3] == o.cap[1][i + 3]
            && o.cap[0][i + 4] == o.cap[1][i + 4] && o.cap[0][i + 5] == o.cap[1][i + 5]
            && o.cap[0][i + 6] == o.cap[1][i + 6] && o.cap[0][i + 7] == o.cap[1][i + 7];
        i += 8;
    }
    while i < n {
        eq = eq && o.cap[0][i] == o.cap[1][i];
        i += 1;
    }
    eq
}

/// an arbitrary VALID signature for the programmed message scalars / domain: A = B/(sk+e), e != 0
fn valid_sig_bytes<CS: BbsCiphersuite, const L: usize>(sk: &BBSplusSecretKey) -> [u8; 80] {
    let o = oracle();
    let gens = stubs::ref_gens(L + 1, false);
    let mut ms = Vec::new();
    let mut i = 0;
    while i < L {
        ms.push(rf::scalar_of_state(o.ans[i]));
        i += 1;
    }
    let d = rf::scalar_of_state(o.ans[L]);
    let b = rf::b_value(&stubs::p1_of::<CS>(), &gens[0], &gens[1..], &d, &ms);
    // concrete exponent (see proof_flow: the algebra is kept linear in the symbolic message scalars)
    let e = Scalar::from_nonzero_raw(9);
    kani::assume(b != G1Projective::IDENTITY);
    let a = b * (sk.0 + e).invert().unwrap();
    // canonical framing written by hand so that decoding it does not branch on the symbolic values
    // (A != identity follows from B != identity)
    kani::assume(a.0 != 0);
    let mut out = [0u8; 80];
    out[0] = 0x80;
    out[47] = (a.0 - 1) as u8;
    out[78] = 1;
    out[79] = (e.0 - 1) as u8;
    out
}

/// EDIT: 0 none (completeness, C03); 1 one disclosed message replaced; 2 header replaced;
/// 3 presentation header replaced; 4 first disclosed index moved to another position (C04)
pub fn proof_flow<CS: BbsCiphersuite, const L: usize, const DMASK: usize, const PERM: usize, const HDR: usize, const PH: usize, const EDIT: usize, const MLEN0: usize>()
where
    CS::Expander: for<'a> elliptic_curve::hash2curve::ExpandMsg<'a>,
{
    // Concrete key (sk = 5), exponent (e = 9), challenge (77) and draw sequence: with these symbolic the
    // solver must prove associativity of products of three symbolic factors mod 257 and does not
    // finish (measured: > 25 min at L = 1).  Symbolic: every message scalar, the domain, all octets.
    let sk = BBSplusSecretKey(Scalar::from_nonzero_raw(5));
    let pk = sk.public_key();
    let msgs = any_msgs::<L, MLEN0>();
    let hs: [u8; 2] = kani::any();
    let ps: [u8; 2] = kani::any();
    let hdr = opt_shape::<HDR>(&hs);
    let ph = opt_shape::<PH>(&ps);
    let didx_sorted = sorted_idx::<L, DMASK>();
    let didx = idx_from_mask::<L, DMASK, PERM>();
    let r_count = didx_sorted.len();
    let u_count = L - r_count;
    // prover: L message mappings, domain, challenge;  verifier: R message mappings, domain, challenge
    let n_prover = L + 2;
    program(n_prover + r_count + 3);
    let o = oracle();
    // the prover's challenge is a fixed oracle answer (state 77 -> scalar 77): with a symbolic challenge
    // the solver has to prove associativity of products of three symbolic factors and does not finish
    o.ans[L + 1] = 77;
    o.cap_idx = [L + 1, n_prover + r_count + 1];
    let sig_bytes = valid_sig_bytes::<CS, L>(&sk);
    tp!("kind", "proofflow"); tp!("suite", crate::h::c08::suite_tag::<CS>()); tp!("msgs", &msgs); tp!("hdr", hdr); tp!("ph", ph); tp!("idx", &didx); tp!("edit", EDIT);
    let r = PoKSignature::<BBSplus<CS>>::proof_gen(&pk, &sig_bytes, hdr, ph, Some(&msgs), Some(&didx));
    kani::cover!(r.is_ok(), "proof_gen succeeds");
    assert!(r.is_ok(), "C03: proof_gen failed on a valid signature and valid indexes");
    let proof = r.unwrap();
    assert!(o.n == n_prover, "C03/C10: proof_gen made an unexpected number of oracle queries");
    let api_len = rsuite::<CS>().api_id(false).len();
    let phl = ph.map(|p| p.len()).unwrap_or(0);
    let chal_len = 8 + r_count * 40 + 5 * 48 + 32 + 8 + phl;
    assert!(o.msg_len[L + 1] == chal_len && o.dst_len[L + 1] == api_len + H2S_EXTRA, "C10: challenge query has the wrong length");
    let enc = proof.to_bytes();
    assert!(enc.len() == 272 + 32 * u_count, "C03: proof length is not 272 + 32 * (number of undisclosed messages)");
    if EDIT == 0 {
        // C10: the prover's challenge input equals the draft's, computed independently from the signature,
        // the programmed scalars and the draw table (r1, r2, e~, r1~, r3~, m~_j = draws 0, 1, 2, 3, 4, 5+j)
        let gens = stubs::ref_gens(L + 1, false);
        let mut ms = Vec::new();
        let mut i = 0;
        while i < L {
            ms.push(rf::scalar_of_state(o.ans[i]));
            i += 1;
        }
        let dom = rf::scalar_of_state(o.ans[L]);
        let b = rf::b_value(&stubs::p1_of::<CS>(), &gens[0], &gens[1..], &dom, &ms);
        let e = Scalar::from_nonzero_raw(9);
        let a = b * (sk.0 + e).invert().unwrap();
        let (r1, r2) = (crate::h::p05::draw_scalar(0), crate::h::p05::draw_scalar(1));
        let dd = b * r2;
        let abar = a * (r1 * r2);
        let bbar = dd * r1 - abar * e;
        let t1 = abar * crate::h::p05::draw_scalar(2) + dd * crate::h::p05::draw_scalar(3);
        let mut t2 = dd * crate::h::p05::draw_scalar(4);
        let mut dsc = Vec::new();
        let mut j = 0;
        let mut pos = 0;
        while pos < L {
            if (DMASK >> pos) & 1 == 0 {
                t2 = t2 + gens[1 + pos] * crate::h::p05::draw_scalar(5 + j);
                j += 1;
            } else {
                dsc.push(ms[pos]);
            }
            pos += 1;
        }
        let want = rf::challenge_bytes(&didx_sorted, &dsc, &abar, &bbar, &dd, &t1, &t2, &dom, ph.unwrap_or(&[]));
        assert!(crate::h::p01::cap_equals(0, &want), "C10: the octets hashed into the proof challenge differ from the draft's challenge input");
    }

    // ---- verifier side -------------------------------------------------------------------
    let mut dmsgs: Vec<Vec<u8>> = Vec::new();
    let mut j = 0;
    while j < r_count {
        dmsgs.push(msgs[didx_sorted[j]].clone());
        // same message octets => same oracle answer
        o.ans[n_prover + j] = o.ans[didx_sorted[j]];
        j += 1;
    }
    o.ans[n_prover + r_count] = o.ans[L]; // domain (same pk, generators, header, api_id)
    o.ans[n_prover + r_count + 1] = o.ans[L + 1]; // challenge: justified below by the captured octets
    let hs2: [u8; 2] = kani::any();
    let ps2: [u8; 2] = kani::any();
    let mut vidx = didx.clone();
    let mut vhdr = hdr;
    let mut vph = ph;
    let mut expect_same_query = true;
    if EDIT == 1 {
        // another message at disclosed position 0: its mapping gets a fresh answer, different scalar
        let fresh: u16 = kani::any();
        kani::assume(rf::scalar_of_state(fresh) != rf::scalar_of_state(o.ans[didx_sorted[0]]));
        o.ans[n_prover] = fresh;
        dmsgs[0] = vec![0xEE, 0xEE, 0xEE];
        expect_same_query = false;
    } else if EDIT == 2 {
        // another header (octet string differs): the domain query differs => fresh, different answer
        kani::assume(hs2[0] != hs[0]);
        vhdr = Some(&hs2[..1]);
        let fresh: u16 = kani::any();
        kani::assume(rf::scalar_of_state(fresh) != rf::scalar_of_state(o.ans[L]));
        o.ans[n_prover + r_count] = fresh;
        expect_same_query = false;
    } else if EDIT == 3 {
        kani::assume(ps2[0] != ps[0]);
        vph = Some(&ps2[..1]);
        expect_same_query = false;
    } else if EDIT == 4 {
        // claim the first disclosed message at an undisclosed position
        let mut k = 0;
        while k < L {
            if (DMASK >> k) & 1 == 0 {
                vidx[0] = k;
                break;
            }
            k += 1;
        }
        expect_same_query = false;
    }
    if EDIT == 5 {
        // one surplus, never-signed disclosed message appended (R + 1 messages for R indexes): the
        // verifier maps it too (one more query), then must refuse
        dmsgs.push(vec![0xEE]);
        o.ans[n_prover + r_count + 1] = o.ans[L];
        o.ans[n_prover + r_count + 2] = o.ans[L + 1];
        o.on = true;
        let v5 = proof.proof_verify(&pk, Some(&dmsgs), Some(&vidx), vhdr, vph);
        o.on = false;
        kani::cover!(v5.is_err(), "the expected outcome is reachable");
        assert!(v5.is_err(), "C04: a proof verifies for a statement with a surplus disclosed message");
        return;
    }
    if EDIT == 6 {
        // C11 / C02 / C04: the plain proof presented to the BLIND verifier (L absent).  Whatever it
        // hashes must be under the blind interface's api_id, with independent answers, and it can only
        // be accepted if such an independent answer equals the transmitted challenge.
        let mut k = n_prover;
        while k < n_prover + r_count + 2 {
            o.ans[k] = kani::any();
            k += 1;
        }
        o.on = true;
        let v6 = proof.blind_proof_verify(&pk, hdr, ph, None, Some(&dmsgs), None, Some(&vidx), None);
        o.on = false;
        let blind_api = rsuite::<CS>().api_id(true);
        let mut ok = true;
        let mut k = n_prover;
        while k < o.n {
            ok = ok && o.dst_len[k] >= blind_api.len();
            let mut i = 0;
            while i < blind_api.len() {
                ok = ok && o.dst_head[k][i] == blind_api[i];
                i += 1;
            }
            k += 1;
        }
        assert!(ok, "C11: the blind verifier hashed something under a DST that does not start with the blind api_id (plain / blind interfaces are not separated)");
        if v6.is_ok() {
            assert!(o.n >= 1 && rf::scalar_of_state(o.ans[o.n - 1]) == rf::scalar_of_state(o.ans[L + 1]), "C11: a plain proof is accepted by the blind verifier although its challenge differs");
        }
        kani::cover!(v6.is_err(), "the expected outcome is reachable");
        return;
    }
    if EDIT >= 100 {
        // C04, bit flips: one symbolic bit of the payload octet of segment SEG = EDIT - 100 of the encoded
        // proof is flipped (segments: Abar, Bbar, D, e^, r1^, r3^, m^_1.., challenge); the flipped proof is
        // decoded (framing untouched, so it decodes) and verified with an independent challenge answer.
        let seg = EDIT - 100;
        // re-frame the honest proof canonically (flag / form octets written as constants, payload octets
        // copied) so that decoding does not branch on symbolic values; this assumes the honest proof has
        // no identity point and no zero scalar (probability ~ 1/r each)
        let mut t = vec![0u8; 272 + 32 * u_count];
        let mut k = 0;
        while k < 3 {
            kani::assume(enc[48 * k] == 0x80);
            t[48 * k] = 0x80;
            t[48 * k + 47] = enc[48 * k + 47];
            k += 1;
        }
        let mut j = 0;
        while j < 4 + u_count {
            kani::assume(enc[144 + 32 * j + 30] == 1);
            t[144 + 32 * j + 30] = 1;
            t[144 + 32 * j + 31] = enc[144 + 32 * j + 31];
            j += 1;
        }
        let pos = if seg < 3 { 48 * seg + 47 } else { 144 + 32 * (seg - 3) + 31 };
        let bit: u8 = kani::any();
        kani::assume(bit < 8);
        t[pos] ^= 1u8 << bit;
        let p2 = PoKSignature::<BBSplus<CS>>::from_bytes(&t);
        assert!(p2.is_ok(), "C09: a proof with a flipped payload bit and intact framing must still decode");
        let p2 = p2.unwrap();
        o.ans[n_prover + r_count + 1] = kani::any();
        o.on = true;
        let v7 = p2.proof_verify(&pk, Some(&dmsgs), Some(&vidx), vhdr, vph);
        o.on = false;
        let same7 = o.msg_len[n_prover + r_count + 1] == chal_len && caps_equal(if chal_len < CAP_LEN { chal_len } else { CAP_LEN });
        if v7.is_ok() {
            assert!(!same7, "C04: a proof with a flipped bit leads to the same challenge input");
            // the transmitted challenge of the flipped proof
            let sent = if seg == 6 + u_count {
                Scalar::from_nonzero_raw(t[pos] as u16 + 1)
            } else {
                rf::scalar_of_state(o.ans[L + 1])
            };
            assert!(rf::scalar_of_state(o.ans[n_prover + r_count + 1]) == sent, "C04: a proof with one flipped bit verifies although its challenge differs");
        }
        kani::cover!(v7.is_err(), "the expected outcome is reachable");
        return;
    }
    if !expect_same_query {
        // a different query gets an independent answer
        o.ans[n_prover + r_count + 1] = kani::any();
    }
    o.on = true;
    let v = proof.proof_verify(&pk, Some(&dmsgs), Some(&vidx), vhdr, vph);
    o.on = false;
    let same = o.msg_len[n_prover + r_count + 1] == chal_len && caps_equal(if chal_len < CAP_LEN { chal_len } else { CAP_LEN });
    if EDIT == 0 {
        assert!(o.n == n_prover + r_count + 2, "C03/C10: proof_verify made an unexpected number of oracle queries");
        assert!(same, "C03: verifier's challenge input differs from the prover's (T1/T2/domain/index bookkeeping)");
        assert!(all_dsts_start_with(n_prover + r_count + 2, &rsuite::<CS>().api_id(false)), "C11: proof_gen / proof_verify hashed something under a DST that does not start with the plain api_id");
        assert!(v.is_ok(), "C03: honest proof rejected");
    } else {
        // the edit must be bound into what the verifier hashes, and then acceptance requires the
        // independent oracle answer to coincide with the transmitted challenge (probability 1/r)
        if v.is_ok() {
            assert!(!same, "C04: an edited statement leads to the same challenge input");
            assert!(rf::scalar_of_state(o.ans[n_prover + r_count + 1]) == rf::scalar_of_state(o.ans[L + 1]), "C04: edited statement accepted although the challenge differs");
        }
    }
    if EDIT < 5 {
        kani::cover!(if EDIT == 0 { v.is_ok() } else { v.is_err() }, "the expected outcome is reachable");
    }
}
