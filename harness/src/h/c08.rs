//! C08 — untrusted input never crashes (style P: every default Kani check + overflow checks).
//! Lengths/counts that drive loops are const generics (one solver query per shape); contents,
//! index values and declared counts are symbolic.
use crate::common::*;
use crate::tp;
use crate::stubs::{self, sym::*};
use zkryptium::bbsplus::commitment::{BBSplusCommitment, BlindFactor};
use zkryptium::bbsplus::generators::Generators;
use zkryptium::bbsplus::proof::{BBSplusPoKSignature, BBSplusZKPoK};
use zkryptium::bbsplus::signature::BBSplusSignature;

// ---- decoders -------------------------------------------------------------------------------
pub fn dec_pk<const LEN: usize>() {
    let buf: [u8; LEN] = kani::any();
    tp!("kind", "dec"); tp!("entry", "pk"); tp!("bytes", &buf[..]);
    let r = BBSplusPublicKey::from_bytes(&buf[..]);
    kani::cover!(r.is_ok() || r.is_err(), "decoder returned");
}
pub fn dec_sk<const LEN: usize>() {
    let buf: [u8; LEN] = kani::any();
    tp!("kind", "dec"); tp!("entry", "sk"); tp!("bytes", &buf[..]);
    let r = BBSplusSecretKey::from_bytes(&buf[..]);
    kani::cover!(r.is_ok() || r.is_err(), "decoder returned");
}
pub fn dec_sig() {
    let buf: [u8; 80] = kani::any();
    tp!("kind", "dec"); tp!("entry", "sig"); tp!("bytes", &buf[..]);
    let r = BBSplusSignature::from_bytes(&buf);
    kani::cover!(r.is_ok(), "some input decodes");
    kani::cover!(r.is_err(), "some input is refused");
}
pub fn dec_proof<const LEN: usize>() {
    let buf: [u8; LEN] = kani::any();
    tp!("kind", "dec"); tp!("entry", "proof"); tp!("bytes", &buf[..]);
    let r = BBSplusPoKSignature::from_bytes(&buf[..]);
    kani::cover!(r.is_ok() || r.is_err(), "decoder returned");
}
pub fn dec_zkpok<const LEN: usize>() {
    let buf: [u8; LEN] = kani::any();
    tp!("kind", "dec"); tp!("entry", "zkpok"); tp!("bytes", &buf[..]);
    let r = BBSplusZKPoK::from_bytes(&buf[..]);
    kani::cover!(r.is_ok() || r.is_err(), "decoder returned");
}
pub fn dec_commitment<const LEN: usize>() {
    let buf: [u8; LEN] = kani::any();
    tp!("kind", "dec"); tp!("entry", "commitment"); tp!("bytes", &buf[..]);
    let r = BBSplusCommitment::from_bytes(&buf[..]);
    kani::cover!(r.is_ok() || r.is_err(), "decoder returned");
}
pub fn dec_blindfactor() {
    let buf: [u8; 32] = kani::any();
    tp!("kind", "dec"); tp!("entry", "blindfactor"); tp!("bytes", &buf[..]);
    let r = BlindFactor::from_bytes(&buf);
    kani::cover!(r.is_ok(), "some input decodes");
    kani::cover!(r.is_err(), "some input is refused");
}

// ---- helpers --------------------------------------------------------------------------------
/// "sha" / "shk"
pub fn suite_tag<CS: BbsCiphersuite>() -> &'static str {
    if CS::ID.len() > 20 && CS::ID[16] == b'M' { "sha" } else { "shk" }
}
fn any_pk() -> BBSplusPublicKey {
    // any G2 element, the identity included (a decoder may hand it to the operations)
    let v: u16 = kani::any();
    kani::assume((v as u32) < Q);
    BBSplusPublicKey(G2Projective::from_dlog(v))
}
fn any_msgs<const N: usize>() -> (Vec<Vec<u8>>, [u8; N]) {
    let raw: [u8; N] = kani::any();
    let mut v = Vec::new();
    let mut i = 0;
    while i < N {
        v.push(vec![raw[i]]);
        i += 1;
    }
    (v, raw)
}
fn any_sig_bytes() -> [u8; 80] {
    // an arbitrary *decodable* signature in canonical framing (non-identity A, one-octet e):
    // decoding it does not branch on the symbolic payload
    let mut b = [0u8; 80];
    put_g1(&mut b, 0);
    put_nonzero_scalar(&mut b, 48);
    b
}
/// arbitrary decodable proof with U undisclosed responses, built through the real decoder
fn any_proof<CS: BbsCiphersuite, const U: usize, const LEN: usize>() -> (PoKSignature<BBSplus<CS>>, [u8; LEN]) {
    let mut b = [0u8; LEN];
    put_g1(&mut b, 0);
    put_g1(&mut b, 48);
    put_g1(&mut b, 96);
    let mut j = 0;
    while j < 4 + U {
        put_scalar(&mut b, 144 + 32 * j);
        j += 1;
    }
    (PoKSignature::<BBSplus<CS>>::from_bytes(&b[..]).unwrap(), b)
}
/// header / presentation-header shape: 0 = None, 1 = Some(b""), 2 = Some(one symbolic byte)
fn opt_shape<const SH: usize>(store: &[u8; 1]) -> Option<&[u8]> {
    if SH == 0 {
        None
    } else if SH == 1 {
        Some(&store[..0])
    } else {
        Some(&store[..])
    }
}

// ---- operations on untrusted values -----------------------------------------------------------
// Inputs that go through a decoder are given in canonical framing with symbolic payload octets
// (every payload octet is a valid value in the model group), so that container lengths stay concrete
// for the symbolic-execution engine; robustness of the decoders against *arbitrary* octets is the
// job of the dec_* harnesses above.

/// verify: arbitrary decodable signature, any public key, L one-byte messages, header shape HDR
pub fn op_verify<CS: BbsCiphersuite, const L: usize, const HDR: usize, const MNONE: bool>() {
    let pk = any_pk();
    let sig_raw = any_sig_bytes();
    let sig = Signature::<BBSplus<CS>>::from_bytes(&sig_raw).unwrap();
    let (msgs, msgs_raw) = any_msgs::<L>();
    let hs: [u8; 1] = kani::any();
    let hdr = opt_shape::<HDR>(&hs);
    tp!("kind", "op"); tp!("entry", "verify"); tp!("suite", suite_tag::<CS>());
    tp!("pk", pk.0 .0); tp!("sig", &sig_raw[..]); tp!("msgs", &msgs_raw[..]); tp!("hdr", hdr);
    let r = sig.verify(&pk, if MNONE { None } else { Some(&msgs) }, hdr);
    kani::cover!(r.is_ok() || r.is_err(), "verify returned");
}

/// index-list shapes: 0 = [], 1 = [any usize], 2 = [0, 1], 3 = [1, 0], 4 = [0, 0], 5 = [0, usize::MAX],
/// 6 = [any usize, any usize] (thorough only: the symbolic sort/dedup makes the list length symbolic)
fn idx_shape<const SH: usize>() -> Vec<usize> {
    let a: usize = kani::any();
    match SH {
        0 => Vec::new(),
        1 => vec![a],
        2 => vec![0, 1],
        3 => vec![1, 0],
        4 => vec![0, 0],
        5 => vec![0, usize::MAX],
        _ => {
            let b: usize = kani::any();
            vec![a, b]
        }
    }
}

/// proof_verify: arbitrary decodable proof with U responses, index list of shape ISH, NM messages
pub fn op_proof_verify<CS: BbsCiphersuite, const U: usize, const LEN: usize, const ISH: usize, const NM: usize, const HDR: usize, const PH: usize>() {
    let pk = any_pk();
    let (proof, proof_raw) = any_proof::<CS, U, LEN>();
    let idx = idx_shape::<ISH>();
    let (msgs, msgs_raw) = any_msgs::<NM>();
    let hs: [u8; 1] = kani::any();
    let ps: [u8; 1] = kani::any();
    let hdr = opt_shape::<HDR>(&hs);
    let ph = opt_shape::<PH>(&ps);
    tp!("kind", "op"); tp!("entry", "proof_verify"); tp!("suite", suite_tag::<CS>());
    tp!("pk", pk.0 .0); tp!("proof", &proof_raw[..]); tp!("msgs", &msgs_raw[..]); tp!("idx", &idx[..]); tp!("hdr", hdr); tp!("ph", ph);
    let r = proof.proof_verify(&pk, Some(&msgs), Some(&idx), hdr, ph);
    kani::cover!(r.is_ok() || r.is_err(), "proof_verify returned");
}

/// blind_proof_verify, arithmetic part: `L` is ANY usize (or None); prepare_parameters is stubbed
/// to record what would be requested.  No overflow / panic may happen before the request, and the
/// request must be bounded by what the verifier was handed (work bound).
pub fn op_bpv_arith<CS: BbsCiphersuite, const U: usize, const LEN: usize, const R1: usize, const R2: usize, const LNONE: bool>() {
    let pk = any_pk();
    let (proof, proof_raw) = any_proof::<CS, U, LEN>();
    let idx1: [usize; R1] = core::array::from_fn(|i| i);
    let idx2: [usize; R2] = core::array::from_fn(|i| i);
    let (m1, m1_raw) = any_msgs::<R1>();
    let (m2, m2_raw) = any_msgs::<R2>();
    let lv: usize = kani::any();
    let l: Option<usize> = if LNONE { None } else { Some(lv) };
    tp!("kind", "op"); tp!("entry", "blind_proof_verify"); tp!("suite", suite_tag::<CS>());
    tp!("pk", pk.0 .0); tp!("proof", &proof_raw[..]); tp!("msgs", &m1_raw[..]); tp!("cmsgs", &m2_raw[..]);
    tp!("idx", &idx1[..]); tp!("idx2", &idx2[..]); tp!("L", l);
    let r = proof.blind_proof_verify(&pk, None, None, l, Some(&m1), Some(&m2), Some(&idx1), Some(&idx2));
    kani::cover!(r.is_err(), "blind_proof_verify returned");
}

/// blind_proof_verify, index part: concrete L = LC, index lists of shapes ISH1 / ISH2
pub fn op_blind_proof_verify<CS: BbsCiphersuite, const U: usize, const LEN: usize, const LC: usize, const ISH1: usize, const ISH2: usize, const N1: usize, const N2: usize>() {
    let pk = any_pk();
    let (proof, proof_raw) = any_proof::<CS, U, LEN>();
    let idx1 = idx_shape::<ISH1>();
    let idx2 = idx_shape::<ISH2>();
    let (m1, m1_raw) = any_msgs::<N1>();
    let (m2, m2_raw) = any_msgs::<N2>();
    let hs: [u8; 1] = kani::any();
    let hdr = opt_shape::<2>(&hs);
    tp!("kind", "op"); tp!("entry", "blind_proof_verify"); tp!("suite", suite_tag::<CS>());
    tp!("pk", pk.0 .0); tp!("proof", &proof_raw[..]); tp!("msgs", &m1_raw[..]); tp!("cmsgs", &m2_raw[..]);
    tp!("idx", &idx1[..]); tp!("idx2", &idx2[..]); tp!("L", Some(LC)); tp!("hdr", hdr);
    let r = proof.blind_proof_verify(&pk, hdr, None, Some(LC), Some(&m1), Some(&m2), Some(&idx1), Some(&idx2));
    kani::cover!(r.is_ok() || r.is_err(), "blind_proof_verify returned");
}

/// canonical commitment_with_proof framing of total length LEN (>= 48): point, then as many whole
/// scalars as fit, then symbolic trailing octets
fn any_commitment_bytes<const LEN: usize>() -> [u8; LEN] {
    let mut b = [0u8; LEN];
    if LEN >= 48 {
        put_g1(&mut b, 0);
        let mut off = 48;
        while off + 32 <= LEN {
            put_scalar(&mut b, off);
            off += 32;
        }
        while off < LEN {
            b[off] = kani::any();
            off += 1;
        }
    } else {
        let mut off = 0;
        while off < LEN {
            b[off] = kani::any();
            off += 1;
        }
    }
    b
}

/// blind_sign: commitment_with_proof octets of length LEN in canonical framing, L signer messages
pub fn op_blind_sign<CS: BbsCiphersuite, const LEN: usize, const L: usize>() {
    let sk = any_sk();
    let pk = any_pk();
    let buf = any_commitment_bytes::<LEN>();
    let (msgs, msgs_raw) = any_msgs::<L>();
    tp!("kind", "op"); tp!("entry", "blind_sign"); tp!("suite", suite_tag::<CS>());
    tp!("pk", pk.0 .0); tp!("commitment", &buf[..]); tp!("msgs", &msgs_raw[..]);
    let r = BlindSignature::<BBSplus<CS>>::blind_sign(&sk, &pk, Some(&buf[..]), None, Some(&msgs));
    kani::cover!(r.is_ok() || r.is_err(), "blind_sign returned");
}

/// verify_blind_sign: arbitrary signature, L signer messages, M committed messages, any blind factor
pub fn op_verify_blind_sign<CS: BbsCiphersuite, const L: usize, const M: usize, const USEBF: bool>() {
    let pk = any_pk();
    let sig_raw = any_sig_bytes();
    let sig = BlindSignature::<BBSplus<CS>>::from_bytes(&sig_raw).unwrap();
    let (msgs, msgs_raw) = any_msgs::<L>();
    let (cmsgs, cmsgs_raw) = any_msgs::<M>();
    let mut bf_bytes = [0u8; 32];
    put_scalar(&mut bf_bytes, 0);
    let bf = BlindFactor::from_bytes(&bf_bytes).unwrap();
    tp!("kind", "op"); tp!("entry", "verify_blind_sign"); tp!("suite", suite_tag::<CS>());
    tp!("pk", pk.0 .0); tp!("sig", &sig_raw[..]); tp!("msgs", &msgs_raw[..]); tp!("cmsgs", &cmsgs_raw[..]); tp!("bf", &bf_bytes[..]); tp!("use_bf", USEBF);
    let r = sig.verify_blind_sign(&pk, None, Some(&msgs), Some(&cmsgs), if USEBF { Some(&bf) } else { None });
    kani::cover!(r.is_ok() || r.is_err(), "verify_blind_sign returned");
}

/// deserialize_and_validate_commit: canonical framing of length LEN, G blind generators
pub fn op_deser_commit<CS: BbsCiphersuite, const LEN: usize, const G: usize>() {
    let buf = any_commitment_bytes::<LEN>();
    let gens = Generators::create::<CS>(G, Some(b"BLIND_x"));
    tp!("kind", "op"); tp!("entry", "deserialize_and_validate_commit"); tp!("suite", suite_tag::<CS>());
    tp!("commitment", &buf[..]); tp!("G", G);
    let r = Commitment::<BBSplus<CS>>::deserialize_and_validate_commit(Some(&buf[..]), &gens, Some(CS::API_ID_BLIND));
    kani::cover!(r.is_ok() || r.is_err(), "deserialize_and_validate_commit returned");
}

/// proof_gen: signature octets (SLEN; canonical framing when 80), L messages, index list shape ISH
pub fn op_proof_gen<CS: BbsCiphersuite, const SLEN: usize, const L: usize, const ISH: usize>() {
    let pk = any_pk();
    let mut sb = [0u8; SLEN];
    if SLEN == 80 {
        put_g1(&mut sb, 0);
        put_nonzero_scalar(&mut sb, 48);
    } else {
        let mut i = 0;
        while i < SLEN {
            sb[i] = kani::any();
            i += 1;
        }
    }
    let (msgs, msgs_raw) = any_msgs::<L>();
    let idx = idx_shape::<ISH>();
    tp!("kind", "op"); tp!("entry", "proof_gen"); tp!("suite", suite_tag::<CS>());
    tp!("pk", pk.0 .0); tp!("sig", &sb[..]); tp!("msgs", &msgs_raw[..]); tp!("idx", &idx[..]);
    let r = PoKSignature::<BBSplus<CS>>::proof_gen(&pk, &sb[..], None, None, Some(&msgs), Some(&idx));
    kani::cover!(r.is_ok() || r.is_err(), "proof_gen returned");
}

/// blind_proof_gen: arbitrary decodable signature, L / M messages, index list shapes
pub fn op_blind_proof_gen<CS: BbsCiphersuite, const L: usize, const M: usize, const ISH1: usize, const ISH2: usize>() {
    let pk = any_pk();
    let sb = any_sig_bytes();
    let (msgs, msgs_raw) = any_msgs::<L>();
    let (cmsgs, cmsgs_raw) = any_msgs::<M>();
    let idx1 = idx_shape::<ISH1>();
    let idx2 = idx_shape::<ISH2>();
    tp!("kind", "op"); tp!("entry", "blind_proof_gen"); tp!("suite", suite_tag::<CS>());
    tp!("pk", pk.0 .0); tp!("sig", &sb[..]); tp!("msgs", &msgs_raw[..]); tp!("cmsgs", &cmsgs_raw[..]); tp!("idx", &idx1[..]); tp!("idx2", &idx2[..]);
    let r = PoKSignature::<BBSplus<CS>>::blind_proof_gen(&pk, &sb[..], None, None, Some(&msgs), Some(&cmsgs), Some(&idx1), Some(&idx2), None);
    kani::cover!(r.is_ok() || r.is_err(), "blind_proof_gen returned");
}

/// update_signature: arbitrary signature; `update_index` = UI (usize::MAX - k encoded as UIMAXK = k + 1,
/// 0 = use UI); `n` is N or (BIG) usize::MAX.  A symbolic update_index makes Kani 0.68 report a
/// spurious invalid pointer in Vec::push and prune the path, hence concrete boundary values.
pub fn op_update<CS: BbsCiphersuite, const N: usize, const BIG: bool, const UI: usize, const UIMAXK: usize>() {
    let sk = any_sk();
    let sig_raw = any_sig_bytes();
    let sig = Signature::<BBSplus<CS>>::from_bytes(&sig_raw).unwrap();
    let ui: usize = if UIMAXK > 0 { usize::MAX - (UIMAXK - 1) } else { UI };
    let n: usize = if BIG { usize::MAX } else { N };
    let o: [u8; 1] = kani::any();
    let w: [u8; 1] = kani::any();
    tp!("kind", "op"); tp!("entry", "update_signature"); tp!("suite", suite_tag::<CS>());
    tp!("sig", &sig_raw[..]); tp!("old", &o[..]); tp!("new", &w[..]); tp!("ui", ui); tp!("n", n);
    let r = sig.update_signature(&sk, &o, &w, ui, n);
    kani::cover!(r.is_ok() || r.is_err(), "update_signature returned");
}

/// Generators::create itself (un-stubbed): small counts never panic and do `count` hash-to-curve calls
pub fn op_generators<CS: BbsCiphersuite, const N: usize>() {
    tp!("kind", "op"); tp!("entry", "generators"); tp!("suite", suite_tag::<CS>()); tp!("count", N);
    let g = Generators::create::<CS>(N, Some(CS::API_ID));
    assert!(g.values.len() == N);
}
