//! C08 — untrusted input never crashes (style P: every default Kani check + overflow checks).
//! Lengths/counts that drive loops are const generics (one solver query per shape); contents,
//! index values and declared counts are symbolic.
use crate::common::*;
use crate::tp;
use crate::stubs::{self, sym::*};
use zkryptium::bbsplus::commitment::{BBSplusCommitment, BlindFactor};
use zkryptium::bbsplus::generators::Generators;
use zkryptium::bbsplus::proof::{BBSplusPoKSignature, BBSplusZKPoK};
use zkryptium::bbsplus::signature::BBSplusSignature;

// ---- decoders -------------------------------------------------------------------------------
pub fn dec_pk<const LEN: usize>() {
    let buf: [u8; LEN] = kani::any();
    tp!("kind", "dec"); tp!("entry", "pk"); tp!("q", QV); tp!("bytes", &buf[..]);
    let r = BBSplusPublicKey::from_bytes(&buf[..]);
    kani::cover!(r.is_ok() || r.is_err(), "decoder returned");
}
pub fn dec_sk<const LEN: usize>() {
    let buf: [u8; LEN] = kani::any();
    tp!("kind", "dec"); tp!("entry", "sk"); tp!("q", QV); tp!("bytes", &buf[..]);
    let r = BBSplusSecretKey::from_bytes(&buf[..]);
    kani::cover!(r.is_ok() || r.is_err(), "decoder returned");
}
pub fn dec_sig() {
    let buf: [u8; 80] = kani::any();
    tp!("kind", "dec"); tp!("entry", "sig"); tp!("q", QV); tp!("bytes", &buf[..]);
    let r = BBSplusSignature::from_bytes(&buf);
    kani::cover!(r.is_ok(), "some input decodes");
    kani::cover!(r.is_err(), "some input is refused");
}
pub fn dec_proof<const LEN: usize>() {
    let buf: [u8; LEN] = kani::any();
    tp!("kind", "dec"); tp!("entry", "proof"); tp!("q", QV); tp!("bytes", &buf[..]);
    let r = BBSplusPoKSignature::from_bytes(&buf[..]);
    kani::cover!(r.is_ok() || r.is_err(), "decoder returned");
}
pub fn dec_zkpok<const LEN: usize>() {
    let buf: [u8; LEN] = kani::any();
    tp!("kind", "dec"); tp!("entry", "zkpok"); tp!("q", QV); tp!("bytes", &buf[..]);
    let r = BBSplusZKPoK::from_bytes(&buf[..]);
    kani::cover!(r.is_ok() || r.is_err(), "decoder returned");
}
pub fn dec_commitment<const LEN: usize>() {
    let buf: [u8; LEN] = kani::any();
    tp!("kind", "dec"); tp!("entry", "commitment"); tp!("q", QV); tp!("bytes", &buf[..]);
    let r = BBSplusCommitment::from_bytes(&buf[..]);
    kani::cover!(r.is_ok() || r.is_err(), "decoder returned");
}
pub fn dec_blindfactor() {
    let buf: [u8; 32] = kani::any();
    tp!("kind", "dec"); tp!("entry", "blindfactor"); tp!("q", QV); tp!("bytes", &buf[..]);
    let r = BlindFactor::from_bytes(&buf);
    kani::cover!(r.is_ok(), "some input decodes");
    kani::cover!(r.is_err(), "some input is refused");
}

// ---- helpers --------------------------------------------------------------------------------
/// "sha" / "shk"
pub fn suite_tag<CS: BbsCiphersuite>() -> &'static str {
    if CS::ID.len() > 20 && CS::ID[16] == b'M' { "sha" } else { "shk" }
}
fn any_pk() -> BBSplusPublicKey {
    // any G2 element, the identity included (a decoder may hand it to the operations)
    let v: u8 = kani::any();
    kani::assume((v as u16) < Q);
    BBSplusPublicKey(G2Projective(v))
}
fn any_msgs<const N: usize>() -> (Vec<Vec<u8>>, [u8; N]) {
    let raw: [u8; N] = kani::any();
    let mut v = Vec::new();
    let mut i = 0;
    while i < N {
        v.push(vec![raw[i]]);
        i += 1;
    }
    (v, raw)
}
fn any_sig_bytes() -> [u8; 80] {
    // an arbitrary *decodable* signature: canonical framing, arbitrary values (identity / zero too)
    let a: u8 = kani::any();
    let e: u8 = kani::any();
    kani::assume((a as u16) < Q && (e as u16) < Q);
    let mut b = [0u8; 80];
    b[0] = if a == 0 { 0xC0 } else { 0x80 };
    b[47] = a;
    b[79] = e;
    b
}
/// arbitrary decodable proof with U undisclosed responses, built through the real decoder
fn any_proof<CS: BbsCiphersuite, const U: usize, const LEN: usize>() -> (PoKSignature<BBSplus<CS>>, [u8; LEN]) {
    let mut b = [0u8; LEN];
    let mut k = 0;
    while k < 3 {
        let v: u8 = kani::any();
        kani::assume((v as u16) < Q);
        b[48 * k] = if v == 0 { 0xC0 } else { 0x80 };
        b[48 * k + 47] = v;
        k += 1;
    }
    let mut j = 0;
    while j < 4 + U {
        let v: u8 = kani::any();
        kani::assume((v as u16) < Q);
        b[144 + 32 * j + 31] = v;
        j += 1;
    }
    (PoKSignature::<BBSplus<CS>>::from_bytes(&b[..]).unwrap(), b)
}
fn any_opt_bytes1(flag: u8, store: &[u8; 1]) -> Option<&[u8]> {
    match flag % 3 {
        0 => None,
        1 => Some(&store[..0]),
        _ => Some(&store[..]),
    }
}
fn init_stubs(budget: usize) {
    stubs::reset_counters();
    any_gen_table();
    any_msg_table();
    unsafe {
        stubs::GEN_BUDGET = budget;
    }
}

// ---- operations on untrusted values -----------------------------------------------------------
/// verify: arbitrary decodable signature, any public key, L one-byte messages, any header shape
pub fn op_verify<CS: BbsCiphersuite, const L: usize>() {
    init_stubs(L + 1);
    let pk = any_pk();
    let sig_raw = any_sig_bytes();
    let sig = Signature::<BBSplus<CS>>::from_bytes(&sig_raw).unwrap();
    let (msgs, msgs_raw) = any_msgs::<L>();
    let hs: [u8; 1] = kani::any();
    let hdr = any_opt_bytes1(kani::any(), &hs);
    let use_none: bool = kani::any();
    tp!("kind", "op"); tp!("entry", "verify"); tp!("suite", suite_tag::<CS>()); tp!("q", QV);
    tp!("pk", pk.0 .0); tp!("sig", &sig_raw[..]); tp!("msgs", &msgs_raw[..]); tp!("hdr", hdr);
    let r = sig.verify(&pk, if use_none && L == 0 { None } else { Some(&msgs) }, hdr);
    kani::cover!(r.is_ok() || r.is_err(), "verify returned");
}

/// proof_verify: arbitrary decodable proof with U responses, R arbitrary usize indexes, NM messages
pub fn op_proof_verify<CS: BbsCiphersuite, const U: usize, const LEN: usize, const R: usize, const NM: usize>() {
    init_stubs(U + R + 1);
    let pk = any_pk();
    let (proof, proof_raw) = any_proof::<CS, U, LEN>();
    let idx: [usize; R] = kani::any();
    let (msgs, msgs_raw) = any_msgs::<NM>();
    let hs: [u8; 1] = kani::any();
    let ps: [u8; 1] = kani::any();
    let hdr = any_opt_bytes1(kani::any(), &hs);
    let ph = any_opt_bytes1(kani::any(), &ps);
    tp!("kind", "op"); tp!("entry", "proof_verify"); tp!("suite", suite_tag::<CS>()); tp!("q", QV);
    tp!("pk", pk.0 .0); tp!("proof", &proof_raw[..]); tp!("msgs", &msgs_raw[..]); tp!("idx", &idx[..]); tp!("hdr", hdr); tp!("ph", ph);
    let r = proof.proof_verify(&pk, Some(&msgs), Some(&idx), hdr, ph);
    kani::cover!(r.is_ok() || r.is_err(), "proof_verify returned");
}

/// blind_proof_verify: as above plus an arbitrary `L: Option<usize>` and two index lists
pub fn op_blind_proof_verify<CS: BbsCiphersuite, const U: usize, const LEN: usize, const R1: usize, const R2: usize>() {
    // the work the verifier may do is bounded by what it was handed: U + R1 + R2 (+2 bases)
    init_stubs(U + R1 + R2 + 2);
    let pk = any_pk();
    let (proof, proof_raw) = any_proof::<CS, U, LEN>();
    let idx1: [usize; R1] = kani::any();
    let idx2: [usize; R2] = kani::any();
    let (m1, m1_raw) = any_msgs::<R1>();
    let (m2, m2_raw) = any_msgs::<R2>();
    let l: Option<usize> = kani::any();
    let hs: [u8; 1] = kani::any();
    let hdr = any_opt_bytes1(kani::any(), &hs);
    tp!("kind", "op"); tp!("entry", "blind_proof_verify"); tp!("suite", suite_tag::<CS>()); tp!("q", QV);
    tp!("pk", pk.0 .0); tp!("proof", &proof_raw[..]); tp!("msgs", &m1_raw[..]); tp!("cmsgs", &m2_raw[..]);
    tp!("idx", &idx1[..]); tp!("idx2", &idx2[..]); tp!("L", l); tp!("hdr", hdr);
    let r = proof.blind_proof_verify(&pk, hdr, None, l, Some(&m1), Some(&m2), Some(&idx1), Some(&idx2));
    kani::cover!(r.is_ok() || r.is_err(), "blind_proof_verify returned");
}

/// blind_sign: arbitrary commitment_with_proof octets of length LEN, L signer messages
pub fn op_blind_sign<CS: BbsCiphersuite, const LEN: usize, const L: usize>() {
    init_stubs(LEN / 32 + L + 2);
    any_h2s_table();
    let sk = any_sk();
    let pk = any_pk();
    let buf: [u8; LEN] = kani::any();
    let (msgs, msgs_raw) = any_msgs::<L>();
    tp!("kind", "op"); tp!("entry", "blind_sign"); tp!("suite", suite_tag::<CS>()); tp!("q", QV);
    tp!("pk", pk.0 .0); tp!("commitment", &buf[..]); tp!("msgs", &msgs_raw[..]);
    let r = BlindSignature::<BBSplus<CS>>::blind_sign(&sk, &pk, Some(&buf[..]), None, Some(&msgs));
    kani::cover!(r.is_ok() || r.is_err(), "blind_sign returned");
}

/// verify_blind_sign: arbitrary signature, L signer messages, M committed messages, any blind factor
pub fn op_verify_blind_sign<CS: BbsCiphersuite, const L: usize, const M: usize>() {
    init_stubs(L + M + 2);
    let pk = any_pk();
    let sig_raw = any_sig_bytes();
    let sig = BlindSignature::<BBSplus<CS>>::from_bytes(&sig_raw).unwrap();
    let (msgs, msgs_raw) = any_msgs::<L>();
    let (cmsgs, cmsgs_raw) = any_msgs::<M>();
    let bf_bytes = any_scalar().to_be_bytes();
    let bf = BlindFactor::from_bytes(&bf_bytes).unwrap();
    let use_bf: bool = kani::any();
    tp!("kind", "op"); tp!("entry", "verify_blind_sign"); tp!("suite", suite_tag::<CS>()); tp!("q", QV);
    tp!("pk", pk.0 .0); tp!("sig", &sig_raw[..]); tp!("msgs", &msgs_raw[..]); tp!("cmsgs", &cmsgs_raw[..]); tp!("bf", &bf_bytes[..]); tp!("use_bf", use_bf);
    let r = sig.verify_blind_sign(&pk, None, Some(&msgs), Some(&cmsgs), if use_bf { Some(&bf) } else { None });
    kani::cover!(r.is_ok() || r.is_err(), "verify_blind_sign returned");
}

/// deserialize_and_validate_commit: arbitrary octets, G blind generators (public fn, callable alone)
pub fn op_deser_commit<CS: BbsCiphersuite, const LEN: usize, const G: usize>() {
    init_stubs(G);
    let buf: [u8; LEN] = kani::any();
    let gens = stubs::gens_stub::<CS>(G, Some(b"BLIND_x"));
    tp!("kind", "op"); tp!("entry", "deserialize_and_validate_commit"); tp!("suite", suite_tag::<CS>()); tp!("q", QV);
    tp!("commitment", &buf[..]); tp!("G", G);
    let r = Commitment::<BBSplus<CS>>::deserialize_and_validate_commit(Some(&buf[..]), &gens, Some(CS::API_ID_BLIND));
    kani::cover!(r.is_ok() || r.is_err(), "deserialize_and_validate_commit returned");
}

/// proof_gen: arbitrary signature octets (LEN), L messages, R arbitrary usize indexes
pub fn op_proof_gen<CS: BbsCiphersuite, const SLEN: usize, const L: usize, const R: usize>() {
    init_stubs(L + 1);
    let pk = any_pk();
    let sb: [u8; SLEN] = kani::any();
    let (msgs, msgs_raw) = any_msgs::<L>();
    let idx: [usize; R] = kani::any();
    tp!("kind", "op"); tp!("entry", "proof_gen"); tp!("suite", suite_tag::<CS>()); tp!("q", QV);
    tp!("pk", pk.0 .0); tp!("sig", &sb[..]); tp!("msgs", &msgs_raw[..]); tp!("idx", &idx[..]);
    let r = PoKSignature::<BBSplus<CS>>::proof_gen(&pk, &sb[..], None, None, Some(&msgs), Some(&idx));
    kani::cover!(r.is_ok() || r.is_err(), "proof_gen returned");
}

/// blind_proof_gen: arbitrary decodable signature, L / M messages, arbitrary usize index lists
pub fn op_blind_proof_gen<CS: BbsCiphersuite, const L: usize, const M: usize, const R1: usize, const R2: usize>() {
    init_stubs(L + M + 2);
    let pk = any_pk();
    let sb = any_sig_bytes();
    let (msgs, msgs_raw) = any_msgs::<L>();
    let (cmsgs, cmsgs_raw) = any_msgs::<M>();
    let idx1: [usize; R1] = kani::any();
    let idx2: [usize; R2] = kani::any();
    tp!("kind", "op"); tp!("entry", "blind_proof_gen"); tp!("suite", suite_tag::<CS>()); tp!("q", QV);
    tp!("pk", pk.0 .0); tp!("sig", &sb[..]); tp!("msgs", &msgs_raw[..]); tp!("cmsgs", &cmsgs_raw[..]); tp!("idx", &idx1[..]); tp!("idx2", &idx2[..]);
    let r = PoKSignature::<BBSplus<CS>>::blind_proof_gen(&pk, &sb[..], None, None, Some(&msgs), Some(&cmsgs), Some(&idx1), Some(&idx2), None);
    kani::cover!(r.is_ok() || r.is_err(), "blind_proof_gen returned");
}

/// update_signature: arbitrary signature, any `update_index: usize`; `n` is N or (BIG) near usize::MAX
pub fn op_update<CS: BbsCiphersuite, const N: usize, const BIG: bool>() {
    init_stubs(N + 1);
    let sk = any_sk();
    let sig_raw = any_sig_bytes();
    let sig = Signature::<BBSplus<CS>>::from_bytes(&sig_raw).unwrap();
    let ui: usize = kani::any();
    let n: usize = if BIG { usize::MAX } else { N };
    let o: [u8; 1] = kani::any();
    let w: [u8; 1] = kani::any();
    tp!("kind", "op"); tp!("entry", "update_signature"); tp!("suite", suite_tag::<CS>()); tp!("q", QV);
    tp!("sig", &sig_raw[..]); tp!("old", &o[..]); tp!("new", &w[..]); tp!("ui", ui); tp!("n", n);
    let r = sig.update_signature(&sk, &o, &w, ui, n);
    kani::cover!(r.is_ok() || r.is_err(), "update_signature returned");
}

/// Generators::create itself (un-stubbed): small counts never panic and do `count` hash-to-curve calls
pub fn op_generators<CS: BbsCiphersuite, const N: usize>() {
    bls12_381_plus::model::reset();
    tp!("kind", "op"); tp!("entry", "generators"); tp!("suite", suite_tag::<CS>()); tp!("count", N);
    let g = Generators::create::<CS>(N, Some(CS::API_ID));
    assert!(g.values.len() == N);
    assert!(bls12_381_plus::model::hash_count() == N, "WORK-BOUND: one hash-to-curve per generator");
}
