//! C12 — signature update, as a one-step inductive contract on the real `update_signature`:
//! from an ARBITRARY decodable (A, e) (valid for some vector m iff A*(sk+e) = B(m)) one update at
//! position UI with old/new octets yields (A', e) with A'*(sk+e) = A*(sk+e) - H_UI*old + H_UI*new,
//! so by induction over any update history the signature stays A = B(current vector)/(sk+e) and a
//! wrong `old` leaves exactly the error term H_UI*(old_true - old_stated) in B.  Out-of-range
//! positions are refused.  Generators come from the fixed pure table (stub set G).
use crate::common::*;
use crate::reference as rf;
use crate::stubs::{self, sym::*};
use crate::tp;
use crate::h::c01::rsuite;
use crate::h::p01::{program, MAP_DST_EXTRA};
use elliptic_curve::model::oracle;

pub fn update_contract<CS: BbsCiphersuite, const N: usize, const UI: usize, const UIMAXK: usize, const OLEN: usize, const NLEN: usize>()
where
    CS::Expander: for<'a> elliptic_curve::hash2curve::ExpandMsg<'a>,
{
    let sk = any_sk();
    let mut sb = [0u8; 80];
    put_g1(&mut sb, 0);
    put_nonzero_scalar(&mut sb, 48);
    let sig = Signature::<BBSplus<CS>>::from_bytes(&sb).unwrap();
    // old / new values of OLEN / NLEN symbolic octets (different lengths exercise prefix relations)
    let o: [u8; OLEN] = kani::any();
    let w: [u8; NLEN] = kani::any();
    let ui: usize = if UIMAXK > 0 { usize::MAX - (UIMAXK - 1) } else { UI };
    tp!("kind", "update"); tp!("suite", crate::h::c08::suite_tag::<CS>()); tp!("n", N); tp!("ui", ui); tp!("old", &o[..]); tp!("new", &w[..]);
    // programmed oracle: query 0 maps the old value, query 1 the new value
    program(2);
    let r = sig.update_signature(&sk, &o, &w, ui, N);
    let orc = oracle();
    orc.on = false;
    kani::cover!(r.is_ok() || r.is_err(), "returned");
    if ui >= N {
        assert!(r.is_err(), "C12: update at an out-of-range position was not refused");
        return;
    }
    let api = rsuite::<CS>().api_id(false);
    let h = stubs::model_gen(ui + 1, false);
    assert!(orc.n == 2 && orc.msg_len[0] == OLEN && orc.msg_len[1] == NLEN
        && orc.dst_len[0] == api.len() + MAP_DST_EXTRA && orc.dst_len[1] == api.len() + MAP_DST_EXTRA
        && crate::h::p01::all_dsts_start_with(2, &api),
        "C12/C10: update_signature does not map exactly (old, new) under the message-mapping DST");
    let old_s = rf::scalar_of_state(orc.ans[0]);
    let new_s = rf::scalar_of_state(orc.ans[1]);
    let ske = sk.0 + sig.e();
    let b_new = sig.a() * ske - h * old_s + h * new_s;
    if ske == Scalar::ZERO || b_new == G1Projective::IDENTITY {
        // degenerate (probability 1/r in the real group): either outcome allowed, but no panic
        return;
    }
    kani::cover!(r.is_ok(), "update succeeds");
    assert!(r.is_ok(), "C12: update failed on a valid input");
    let s2 = r.unwrap();
    assert!(s2.e() == sig.e(), "C12: update changed the exponent e");
    assert!(s2.a() * ske == b_new, "C12: updated A differs from (A*(sk+e) - H_i*old + H_i*new)/(sk+e)");
}
