pub mod c08;
pub mod c09;
pub mod c01;
pub mod c10;
pub mod c12;
#[cfg(feature = "prog")]
pub mod p01;
pub mod generated;
