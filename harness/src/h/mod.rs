pub mod c08;
pub mod c09;
pub mod c01;
pub mod generated;
