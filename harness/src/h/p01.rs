//! C01 / C02 — sign and verify contracts with the PROGRAMMED oracle (feature `prog`): every
//! expand_message answer is a free symbolic value chosen by the harness, so the contract is pure
//! algebra over the real code's bookkeeping; what is hashed is constrained by the recorded lengths
//! here and compared byte for byte in the C10 units.
use crate::common::*;
use crate::reference as rf;
use crate::stubs::{self, sym::*};
use crate::tp;
use crate::h::c01::{any_msgs, opt_shape, rsuite};
use elliptic_curve::model::oracle;

pub const MAP_DST_EXTRA: usize = 26; // "MAP_MSG_TO_SCALAR_AS_HASH_"
pub const H2S_EXTRA: usize = 4; // "H2S_"

pub fn program(n: usize) {
    let o = oracle();
    let mut i = 0;
    while i < n {
        o.ans[i] = kani::any();
        i += 1;
    }
    o.n = 0;
    o.on = true;
}

/// C11: every one of the first `n` oracle queries carries a DST that starts with `api` (the api_id of
/// the interface under which the entry point was called), i.e. nothing is hashed under another
/// suite's or interface's domain
pub fn all_dsts_start_with(n: usize, api: &[u8]) -> bool {
    let o = oracle();
    let mut ok = true;
    let mut k = 0;
    while k < n {
        ok = ok && o.dst_len[k] >= api.len();
        let mut i = 0;
        while i < api.len() {
            ok = ok && o.dst_head[k][i] == api[i];
            i += 1;
        }
        k += 1;
    }
    ok
}

/// captured query `slot` equals `want` octet for octet (8 per iteration)
pub fn cap_equals(slot: usize, want: &[u8]) -> bool {
    let o = oracle();
    let n = want.len();
    if n > elliptic_curve::model::CAP_LEN {
        return false;
    }
    let mut eq = true;
    let mut i = 0;
    while i + 8 <= n {
        eq = eq
            && o.cap[slot][i] == want[i] && o.cap[slot][i + 1] == want[i + 1]
            && o.cap[slot][i + 2] == want[i + 2] && o.cap[slot][i + 3] == want[i + 3]
            && o.cap[slot][i + 4] == want[i + 4] && o.cap[slot][i + 5] == want[i + 5]
            && o.cap[slot][i + 6] == want[i + 6] && o.cap[slot][i + 7] == want[i + 7];
        i += 8;
    }
    while i < n {
        eq = eq && o.cap[slot][i] == want[i];
        i += 1;
    }
    eq
}

pub fn msg_len<const MLEN0: usize>(i: usize) -> usize {
    (i + MLEN0) % 3
}

/// verify: for an ARBITRARY decodable (A, e): Ok <=> A*(sk+e) == P1 + Q1*d + sum H_i*m_i, where m_i, d are
/// the oracle's answers to the L message-mapping queries and the domain query (in that order)
pub fn verify_contract<CS: BbsCiphersuite, const L: usize, const HDR: usize, const MNONE: bool, const MLEN0: usize>()
where
    CS::Expander: for<'a> elliptic_curve::hash2curve::ExpandMsg<'a>,
{
    let sk = any_sk();
    let pk = sk.public_key();
    let msgs = any_msgs::<L, MLEN0>();
    let hs: [u8; 2] = kani::any();
    let hdr = opt_shape::<HDR>(&hs);
    let mut sb = [0u8; 80];
    put_g1(&mut sb, 0);
    put_nonzero_scalar(&mut sb, 48);
    let sig = Signature::<BBSplus<CS>>::from_bytes(&sb).unwrap();
    tp!("kind", "sigflow"); tp!("suite", crate::h::c08::suite_tag::<CS>()); tp!("msgs", &msgs); tp!("hdr", hdr); tp!("msgs_none", MNONE);
    program(L + 1);
    oracle().cap_idx = [L, usize::MAX];
    let r = sig.verify(&pk, if MNONE { None } else { Some(&msgs) }, hdr);
    let o = oracle();
    o.on = false;
    let api_len = rsuite::<CS>().api_id(false).len();
    assert!(o.n == L + 1, "C01/C10: verify made an unexpected number of oracle queries");
    assert!(all_dsts_start_with(L + 1, &rsuite::<CS>().api_id(false)), "C11: verify hashed something under a DST that does not start with the plain interface's api_id");
    let gens = stubs::ref_gens(L + 1, false);
    let mut ms = Vec::new();
    let mut i = 0;
    while i < L {
        assert!(o.msg_len[i] == msg_len::<MLEN0>(i) && o.dst_len[i] == api_len + MAP_DST_EXTRA, "C10: message-mapping query has the wrong shape");
        ms.push(rf::scalar_of_state(o.ans[i]));
        i += 1;
    }
    let hl = hdr.map(|h| h.len()).unwrap_or(0);
    assert!(o.msg_len[L] == 96 + 8 + 48 * (L + 1) + api_len + 8 + hl && o.dst_len[L] == api_len + H2S_EXTRA, "C10: domain query has the wrong length");
    // C10: the domain input is, octet for octet, PK || I2OSP(L,8) || Q1 || H_1..H_L || api_id || I2OSP(len(header),8) || header
    let want_dom = rf::domain_bytes(&pk.0, &gens[0], &gens[1..], &rsuite::<CS>().api_id(false), hdr.unwrap_or(&[]));
    assert!(cap_equals(0, &want_dom), "C10/C02: the octets hashed into the domain differ from the draft's domain input");
    let d = rf::scalar_of_state(o.ans[L]);
    let b_ref = rf::b_value(&stubs::p1_of::<CS>(), &gens[0], &gens[1..], &d, &ms);
    let good = sig.a() * (sk.0 + sig.e()) == b_ref;
    kani::cover!(good && r.is_ok(), "a valid signature is accepted");
    kani::cover!(!good && r.is_err(), "an invalid signature is rejected");
    assert!(r.is_ok() == good, "C01/C02: verify decision differs from A*(sk+e) == B");
}

/// sign: Ok with e = answer of the e-query and A*(sk+e) == B (under sk+e != 0, B != identity);
/// queries: L message mappings, domain, e
pub fn sign_contract<CS: BbsCiphersuite, const L: usize, const HDR: usize, const MNONE: bool, const MLEN0: usize>()
where
    CS::Expander: for<'a> elliptic_curve::hash2curve::ExpandMsg<'a>,
{
    let sk = any_sk();
    let pk = sk.public_key();
    let msgs = any_msgs::<L, MLEN0>();
    let hs: [u8; 2] = kani::any();
    let hdr = opt_shape::<HDR>(&hs);
    program(L + 2);
    let o = oracle();
    let gens = stubs::ref_gens(L + 1, false);
    let mut ms = Vec::new();
    let mut i = 0;
    while i < L {
        ms.push(rf::scalar_of_state(o.ans[i]));
        i += 1;
    }
    let d = rf::scalar_of_state(o.ans[L]);
    let e_ref = rf::scalar_of_state(o.ans[L + 1]);
    let b_ref = rf::b_value(&stubs::p1_of::<CS>(), &gens[0], &gens[1..], &d, &ms);
    kani::assume(sk.0 + e_ref != Scalar::ZERO);
    kani::assume(b_ref != G1Projective::IDENTITY);
    // e = 0 (probability 1/r) is a signature the decoder refuses by design (octets_to_signature)
    kani::assume(e_ref != Scalar::ZERO);
    tp!("kind", "sigflow"); tp!("suite", crate::h::c08::suite_tag::<CS>()); tp!("msgs", &msgs); tp!("hdr", hdr); tp!("msgs_none", MNONE);
    o.cap_idx = [L, L + 1];
    let r = Signature::<BBSplus<CS>>::sign(if MNONE { None } else { Some(&msgs) }, &sk, &pk, hdr);
    o.on = false;
    kani::cover!(r.is_ok(), "sign succeeds");
    assert!(r.is_ok(), "C01: sign failed on a valid input");
    let api_len = rsuite::<CS>().api_id(false).len();
    assert!(o.n == L + 2, "C01/C10: sign made an unexpected number of oracle queries");
    assert!(all_dsts_start_with(L + 2, &rsuite::<CS>().api_id(false)), "C11: sign hashed something under a DST that does not start with the plain interface's api_id");
    let hl = hdr.map(|h| h.len()).unwrap_or(0);
    assert!(o.msg_len[L] == 96 + 8 + 48 * (L + 1) + api_len + 8 + hl && o.dst_len[L] == api_len + H2S_EXTRA, "C10: domain query has the wrong length");
    assert!(o.msg_len[L + 1] == 32 * (L + 2) && o.dst_len[L + 1] == api_len + H2S_EXTRA, "C10: e query has the wrong length");
    {
        let api = rsuite::<CS>().api_id(false);
        let want_dom = rf::domain_bytes(&pk.0, &gens[0], &gens[1..], &api, hdr.unwrap_or(&[]));
        assert!(cap_equals(0, &want_dom), "C10: the octets hashed into the domain differ from the draft's domain input");
        // e input: serialize((SK, msg_1..msg_L, domain))
        let mut want_e = Vec::new();
        want_e.extend_from_slice(&sk.0.to_be_bytes());
        let mut i = 0;
        while i < L {
            want_e.extend_from_slice(&ms[i].to_be_bytes());
            i += 1;
        }
        want_e.extend_from_slice(&d.to_be_bytes());
        assert!(cap_equals(1, &want_e), "C10: the octets hashed into e differ from serialize((SK, msgs, domain))");
    }
    let sig = r.unwrap();
    assert!(sig.e() == e_ref, "C01/C10: signature exponent is not the oracle's answer to the e query");
    assert!(sig.a() * (sk.0 + sig.e()) == b_ref, "C01: A * (sk + e) != B");
    let bytes = sig.to_bytes();
    let sig2 = Signature::<BBSplus<CS>>::from_bytes(&bytes);
    assert!(sig2.is_ok(), "C01: signature does not decode from its own 80-byte encoding");
    assert!(sig2.unwrap() == sig, "C01: signature does not survive its 80-byte encoding");
}

/// C02, bit flips: an ARBITRARY valid signature (A*(sk+e) == B) whose 80-octet encoding has one
/// symbolic bit flipped either fails to decode or fails to verify (exact: a single flip changes only A
/// or only e, and A != identity).
pub fn bitflip_contract<CS: BbsCiphersuite, const L: usize, const HDR: usize, const MLEN0: usize>()
where
    CS::Expander: for<'a> elliptic_curve::hash2curve::ExpandMsg<'a>,
{
    let sk = any_sk();
    let pk = sk.public_key();
    let msgs = any_msgs::<L, MLEN0>();
    let hs: [u8; 2] = kani::any();
    let hdr = opt_shape::<HDR>(&hs);
    program(L + 1);
    let o = oracle();
    let gens = stubs::ref_gens(L + 1, false);
    let mut ms = Vec::new();
    let mut i = 0;
    while i < L {
        ms.push(rf::scalar_of_state(o.ans[i]));
        i += 1;
    }
    let d = rf::scalar_of_state(o.ans[L]);
    let b_ref = rf::b_value(&stubs::p1_of::<CS>(), &gens[0], &gens[1..], &d, &ms);
    // honest pair: e arbitrary non-zero, A = B/(sk+e)
    let e = any_nonzero_scalar();
    kani::assume(sk.0 + e != Scalar::ZERO);
    kani::assume(b_ref != G1Projective::IDENTITY);
    let a = b_ref * (sk.0 + e).invert().unwrap();
    kani::assume(a.0 != 0);
    let mut sb = [0u8; 80];
    sb[0] = 0x80;
    sb[47] = (a.0 - 1) as u8;
    sb[78] = 1;
    sb[79] = (e.0 - 1) as u8;
    let k: usize = kani::any();
    kani::assume(k < 640);
    sb[k / 8] ^= 1u8 << (k % 8);
    tp!("kind", "sigflow"); tp!("suite", crate::h::c08::suite_tag::<CS>()); tp!("msgs", &msgs); tp!("hdr", hdr); tp!("msgs_none", false); tp!("flip_bit", k);
    match Signature::<BBSplus<CS>>::from_bytes(&sb) {
        Err(_) => {
            kani::cover!(true, "some flips are refused by the decoder");
        }
        Ok(s2) => {
            let r = s2.verify(&pk, Some(&msgs), hdr);
            kani::cover!(r.is_err(), "some flips decode and are refused by verify");
            assert!(r.is_err(), "C02: a signature with one flipped bit still verifies");
        }
    }
    o.on = false;
}
