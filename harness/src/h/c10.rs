//! C10 / C11 — conformance with the drafts, unit by unit: each deterministic building block of the real
//! code equals the independent reference transcription (crate::reference) for every symbolic input of
//! the stated shape.  No stubs (except error-message formatting); the oracle is the model fold on both sides.
use crate::common::*;
use crate::reference as rf;
use crate::stubs::{self, sym::*};
use crate::tp;
use crate::h::c01::rsuite;
use zkryptium::bbsplus::generators::Generators;
use zkryptium::utils::message::bbsplus_message::BBSplusMessage;
use zkryptium::utils::util::bbsplus_utils::{calculate_blind_challenge, hash_to_scalar, i2osp};

/// I2OSP for EVERY usize value (full 64-bit width, no model involved)
pub fn i2osp8_full() {
    let x: usize = kani::any();
    tp!("kind", "unit"); tp!("unit", "i2osp8"); tp!("x", x);
    let got = i2osp::<8>(x);
    let want = (x as u64).to_be_bytes();
    assert!(got == want, "C10: I2OSP(x, 8) differs from the big-endian encoding");
}
pub fn i2osp2_full() {
    let x: usize = kani::any();
    kani::assume(x <= 65535);
    tp!("kind", "unit"); tp!("unit", "i2osp2"); tp!("x", x);
    let got = i2osp::<2>(x);
    assert!(got[0] == (x >> 8) as u8 && got[1] == x as u8, "C10: I2OSP(x, 2) differs from the big-endian encoding");
}

/// hash_to_scalar(msg, dst) equals the reference for all msg of MLEN and dst of DLEN octets;
/// a DST longer than 255 octets is refused
pub fn h2s_match<CS: BbsCiphersuite, const MLEN: usize, const DLEN: usize>()
where
    CS::Expander: for<'a> elliptic_curve::hash2curve::ExpandMsg<'a>,
{
    let msg: [u8; MLEN] = kani::any();
    let dst: [u8; DLEN] = kani::any();
    tp!("kind", "unit"); tp!("unit", "h2s"); tp!("suite", crate::h::c08::suite_tag::<CS>()); tp!("msg", &msg[..]); tp!("dst", &dst[..]);
    let r = hash_to_scalar::<CS>(&msg, &dst);
    kani::cover!(r.is_ok() || r.is_err(), "returned");
    if DLEN > 255 {
        assert!(r.is_err(), "C10: hash_to_scalar accepted a DST longer than 255 octets");
    } else {
        assert!(r.is_ok(), "C10: hash_to_scalar failed on a valid input");
        assert!(r.unwrap() == rf::h2s::<CS::Expander>(&msg, &dst), "C10: hash_to_scalar differs from the reference");
    }
}

/// KeyGen / SkToPk.  KI: key_info shape (0 None, 1 empty, 2 one octet, 3 two octets);
/// KD: key_dst shape (0 None, 1 Some(empty), 2 Some(3 symbolic octets))
pub fn keygen_match<CS: BbsCiphersuite, const IKM: usize, const KI: usize, const KD: usize>()
where
    CS::Expander: for<'a> elliptic_curve::hash2curve::ExpandMsg<'a>,
{
    // key material: first two and last two octets symbolic, the rest a fixed pattern (keeps the two
    // hash computations the solver has to equate small)
    let mut ikm = [0x5au8; IKM];
    if IKM >= 4 {
        ikm[0] = kani::any();
        ikm[1] = kani::any();
        ikm[IKM - 2] = kani::any();
        ikm[IKM - 1] = kani::any();
    }
    let kis: [u8; 2] = kani::any();
    let kds: [u8; 3] = kani::any();
    let key_info: Option<&[u8]> = if KI == 0 { None } else { Some(&kis[..KI - 1]) };
    let key_dst: Option<&[u8]> = if KD == 0 { None } else if KD == 1 { Some(&kds[..0]) } else { Some(&kds[..]) };
    tp!("kind", "unit"); tp!("unit", "keygen"); tp!("suite", crate::h::c08::suite_tag::<CS>()); tp!("ikm", &ikm[..]); tp!("key_info", key_info); tp!("key_dst", key_dst);
    let r = KeyPair::<BBSplus<CS>>::generate(&ikm, key_info, key_dst);
    kani::cover!(r.is_ok() || r.is_err(), "returned");
    if IKM < 32 {
        assert!(r.is_err(), "C10: KeyGen accepted key material shorter than 32 octets");
        return;
    }
    assert!(r.is_ok(), "C10: KeyGen failed on a valid input");
    let kp = r.unwrap();
    let api = rsuite::<CS>().api_id(false);
    let ki = key_info.unwrap_or(&[]);
    let default_dst = rf::cat(&[&api, b"KEYGEN_DST_"]);
    let dst: &[u8] = match key_dst {
        None => &default_dst,
        Some(d) => d,
    };
    let inp = rf::cat(&[&ikm, &rf::i2osp2(ki.len()), ki]);
    let sk_ref = rf::h2s::<CS::Expander>(&inp, dst);
    assert!(kp.private_key().0 == sk_ref, "C10: KeyGen secret key differs from the reference");
    assert!(kp.public_key().0 == G2Projective::GENERATOR * sk_ref, "C10: SkToPk differs from SK * BP2");
}

/// key_info longer than 65535 octets is refused
pub fn keygen_limits<CS: BbsCiphersuite>()
where
    CS::Expander: for<'a> elliptic_curve::hash2curve::ExpandMsg<'a>,
{
    let ikm = [7u8; 32];
    let ki = vec![0u8; 65536];
    tp!("kind", "unit"); tp!("unit", "keygen_limits"); tp!("suite", crate::h::c08::suite_tag::<CS>());
    let r = KeyPair::<BBSplus<CS>>::generate(&ikm, Some(&ki), None);
    kani::cover!(r.is_err(), "refused");
    assert!(r.is_err(), "C10: KeyGen accepted key_info longer than 65535 octets");
}

/// create_generators(N, api_id) equals the reference; API: 0 = plain api_id, 1 = blind api_id,
/// 2 = "BLIND_" || blind api_id, 3 = None, 4 = two symbolic octets
pub fn gens_match<CS: BbsCiphersuite, const N: usize, const API: usize>()
where
    CS::Expander: for<'a> elliptic_curve::hash2curve::ExpandMsg<'a>,
{
    let two: [u8; 2] = kani::any();
    let plain = rsuite::<CS>().api_id(false);
    let blind = rsuite::<CS>().api_id(true);
    let bb = rf::cat(&[b"BLIND_", &blind]);
    let api: Option<&[u8]> = match API {
        0 => Some(&plain),
        1 => Some(&blind),
        2 => Some(&bb),
        3 => None,
        _ => Some(&two),
    };
    tp!("kind", "unit"); tp!("unit", "gens"); tp!("suite", crate::h::c08::suite_tag::<CS>()); tp!("n", N); tp!("api", api);
    let g = Generators::create::<CS>(N, api);
    let want = rf::create_generators::<CS::Expander>(N, api.unwrap_or(&[]));
    kani::cover!(g.values.len() == N, "created");
    assert!(g.values.len() == N, "C10: wrong number of generators");
    let mut i = 0;
    while i < N {
        assert!(g.values[i] == want[i], "C10/C11: generator differs from the reference (seed / DST / counter framing)");
        i += 1;
    }
    assert!(g.g1_base_point == stubs::p1_of::<CS>(), "C10: P1 differs");
    // the suite constants themselves
    assert!(CS::API_ID == &plain[..] && CS::API_ID_BLIND == &blind[..], "C10/C11: api_id constants differ from ciphersuite_id || (BLIND_)H2G_HM2S_");
}

/// messages_to_scalars on one message of MLEN octets, under the plain (BLIND = false) or blind api_id
pub fn m2s_match<CS: BbsCiphersuite, const MLEN: usize, const BLIND: bool>()
where
    CS::Expander: for<'a> elliptic_curve::hash2curve::ExpandMsg<'a>,
{
    let m: [u8; MLEN] = kani::any();
    let api = rsuite::<CS>().api_id(BLIND);
    let msgs = vec![m.to_vec()];
    tp!("kind", "unit"); tp!("unit", "m2s"); tp!("suite", crate::h::c08::suite_tag::<CS>()); tp!("msg", &m[..]); tp!("blind", BLIND);
    let r = BBSplusMessage::messages_to_scalar::<CS>(&msgs, &api);
    kani::cover!(r.is_ok(), "mapped");
    assert!(r.is_ok(), "C10: messages_to_scalar failed");
    let v = r.unwrap();
    assert!(v.len() == 1 && v[0].value == rf::map_to_scalar::<CS::Expander>(&m, &api), "C10: message scalar differs from the reference");
    let r1 = BBSplusMessage::map_message_to_scalar_as_hash::<CS>(&m, &api).unwrap();
    assert!(r1.value == v[0].value, "C10: map_message_to_scalar_as_hash differs from messages_to_scalar");
}

/// calculate_blind_challenge over M + 1 symbolic generators equals the reference framing
pub fn blind_challenge_match<CS: BbsCiphersuite, const M1: usize>()
where
    CS::Expander: for<'a> elliptic_curve::hash2curve::ExpandMsg<'a>,
{
    let mut gens = Vec::new();
    let mut i = 0;
    while i < M1 {
        gens.push(G1Projective::from_nonzero_dlog(any_elem()));
        i += 1;
    }
    let c = G1Projective::from_nonzero_dlog(any_elem());
    let cbar = G1Projective::from_nonzero_dlog(any_elem());
    let api = rsuite::<CS>().api_id(true);
    tp!("kind", "unit"); tp!("unit", "blind_challenge"); tp!("suite", crate::h::c08::suite_tag::<CS>()); tp!("m1", M1); tp!("c", c.0); tp!("cbar", cbar.0);
    let r = calculate_blind_challenge::<CS>(c, cbar, &gens, Some(&api));
    kani::cover!(r.is_ok() || r.is_err(), "returned");
    if M1 == 0 {
        assert!(r.is_err(), "C10: blind challenge without generators must be refused");
    } else {
        let want = rf::h2s::<CS::Expander>(&rf::blind_challenge_bytes(&gens, &c, &cbar), &rf::cat(&[&api, b"H2S_"]));
        assert!(r.is_ok() && r.unwrap() == want, "C10: blind challenge differs from the reference");
    }
}

/// History independence of generator creation: a second request (K2) after a first one (K1) in the
/// same thread returns exactly what a fresh computation returns (no cache may leak between counts).
pub fn gens_history<CS: BbsCiphersuite, const K1: usize, const K2: usize>()
where
    CS::Expander: for<'a> elliptic_curve::hash2curve::ExpandMsg<'a>,
{
    let api = rsuite::<CS>().api_id(false);
    tp!("kind", "unit"); tp!("unit", "gens_history"); tp!("suite", crate::h::c08::suite_tag::<CS>()); tp!("k1", K1); tp!("k2", K2);
    let g1 = Generators::create::<CS>(K1, Some(&api));
    let g2 = Generators::create::<CS>(K2, Some(&api));
    let want = rf::create_generators::<CS::Expander>(if K1 > K2 { K1 } else { K2 }, &api);
    kani::cover!(g1.values.len() == K1 && g2.values.len() == K2, "created");
    assert!(g1.values.len() == K1 && g2.values.len() == K2, "C10/C11: wrong number of generators");
    let mut i = 0;
    while i < K1 {
        assert!(g1.values[i] == want[i], "C11: first request differs from the reference");
        i += 1;
    }
    let mut i = 0;
    while i < K2 {
        assert!(g2.values[i] == want[i], "C11: generators depend on the request history (prefix consistency broken)");
        i += 1;
    }
}

fn is_prefix(a: &[u8], b: &[u8]) -> bool {
    if a.len() > b.len() {
        return false;
    }
    let mut i = 0;
    while i < a.len() {
        if a[i] != b[i] {
            return false;
        }
        i += 1;
    }
    true
}
/// C11: the four (suite, interface) api_ids - which prefix every DST and generator seed - are pairwise
/// different and none is a prefix of another, and the blind generator family's id ("BLIND_" || blind
/// api_id) starts with none of them
pub fn api_ids_separate() {
    let ids: [&[u8]; 4] = [
        Bls12381Sha256::API_ID,
        Bls12381Sha256::API_ID_BLIND,
        Bls12381Shake256::API_ID,
        Bls12381Shake256::API_ID_BLIND,
    ];
    let mut i = 0;
    while i < 4 {
        let mut j = 0;
        while j < 4 {
            if i != j {
                assert!(!is_prefix(ids[i], ids[j]), "C11: one interface's api_id is a prefix of another's");
            }
            j += 1;
        }
        assert!(!is_prefix(ids[i], b"BLIND_BBS_BLS12381G1_X"), "C11: the blind generator family id collides with an api_id");
        assert!(is_prefix(b"BBS_BLS12381G1_X", ids[i]), "C11: api_id does not start with the ciphersuite id");
        i += 1;
    }
    kani::cover!(true, "checked");
}
