//! C07 — fresh blinding, as a "role <-> distinct fresh draw" bijection (DESIGN.md §3, C07).
//! The rand model hands out a fixed table of DISTINCT values t_0, t_1, ... (one per draw, position =
//! number of draws so far).  A party who knows the witness recomputes every blinding scalar from the
//! proof / commitment and checks that it is exactly the draw the drafts assign to that role, that the
//! number of draws is the prescribed one, and that two consecutive generations use disjoint draws.
//! A constant, a reused draw, a skipped draw or a swapped role makes one of these equalities fail.
use crate::common::*;
use crate::reference as rf;
use crate::stubs::{self, sym::*};
use crate::tp;
use crate::h::c01::{any_msgs, opt_shape, rsuite};
use crate::h::p01::program;
use crate::h::p03::{idx_from_mask, sorted_idx};
use crate::h::p05::{draw_scalar, scalar_at};
use elliptic_curve::model::oracle;

fn point_at(b: &[u8], off: usize) -> G1Projective {
    if b[off] == 0x80 {
        G1Projective::from_nonzero_dlog(b[off + 47] as u16 + 1)
    } else {
        G1Projective::IDENTITY
    }
}

/// proof_gen: 5 + U draws in the roles (r1, r2, e~, r1~, r3~, m~_1..m~_U); SECOND = true runs a second
/// generation on the same inputs and checks it starts where the first one stopped.
pub fn proof_roles<CS: BbsCiphersuite, const L: usize, const DMASK: usize, const SECOND: bool>()
where
    CS::Expander: for<'a> elliptic_curve::hash2curve::ExpandMsg<'a>,
{
    let sk = BBSplusSecretKey(Scalar::from_nonzero_raw(5));
    let pk = sk.public_key();
    let msgs = any_msgs::<L, 1>();
    let didx = sorted_idx::<L, DMASK>();
    let u_count = L - didx.len();
    let n_q = L + 2;
    program(2 * n_q);
    let o = oracle();
    o.draw_n = 0;
    o.ans[L + 1] = 77;
    o.ans[n_q + L + 1] = 78;
    // valid signature (A, e = 9) for the programmed scalars
    let gens = stubs::ref_gens(L + 1, false);
    let mut ms = Vec::new();
    let mut i = 0;
    while i < L {
        if SECOND {
            o.ans[n_q + i] = o.ans[i];
        }
        ms.push(rf::scalar_of_state(o.ans[i]));
        i += 1;
    }
    if SECOND {
        o.ans[n_q + L] = o.ans[L];
    }
    let d = rf::scalar_of_state(o.ans[L]);
    let b = rf::b_value(&stubs::p1_of::<CS>(), &gens[0], &gens[1..], &d, &ms);
    kani::assume(b != G1Projective::IDENTITY);
    let e = Scalar::from_nonzero_raw(9);
    let a = b * (sk.0 + e).invert().unwrap();
    kani::assume(a.0 != 0);
    let mut sb = [0u8; 80];
    sb[0] = 0x80;
    sb[47] = (a.0 - 1) as u8;
    sb[78] = 1;
    sb[79] = (e.0 - 1) as u8;
    tp!("kind", "randflow"); tp!("suite", crate::h::c08::suite_tag::<CS>()); tp!("msgs", &msgs); tp!("idx", &didx);
    let mut round = 0;
    let rounds = if SECOND { 2 } else { 1 };
    while round < rounds {
        let base = round * (5 + u_count);
        let c = Scalar::from_nonzero_raw(if round == 0 { 77 } else { 78 });
        let p = PoKSignature::<BBSplus<CS>>::proof_gen(&pk, &sb, None, None, Some(&msgs), Some(&didx));
        assert!(p.is_ok(), "C03: proof_gen failed");
        let enc = p.unwrap().to_bytes();
        assert!(o.draw_n == base + 5 + u_count, "C07: proof_gen does not draw exactly 5 + U fresh scalars");
        let (r1, r2, e_t, r1_t, r3_t) = (draw_scalar(base), draw_scalar(base + 1), draw_scalar(base + 2), draw_scalar(base + 3), draw_scalar(base + 4));
        let abar = point_at(&enc, 0);
        let dd = point_at(&enc, 96);
        assert!(abar == a * (r1 * r2), "C07: Abar is not A * (r1 * r2) for the first two fresh draws");
        assert!(dd == b * r2, "C07: D is not B * r2 for the second fresh draw");
        let e_hat = scalar_at(&enc, 144);
        let r1_hat = scalar_at(&enc, 176);
        let r3_hat = scalar_at(&enc, 208);
        assert!(e_hat - e * c == e_t, "C07: e^ is not (third fresh draw) + e * c");
        assert!(r1_hat + r1 * c == r1_t, "C07: r1^ is not (fourth fresh draw) - r1 * c");
        assert!(r3_hat + r2.invert().unwrap() * c == r3_t, "C07: r3^ is not (fifth fresh draw) - r2^-1 * c");
        // undisclosed messages in ascending order of position
        let mut j = 0;
        let mut pos = 0;
        while pos < L {
            if (DMASK >> pos) & 1 == 0 {
                let m_hat = scalar_at(&enc, 240 + 32 * j);
                assert!(m_hat - ms[pos] * c == draw_scalar(base + 5 + j), "C07: an undisclosed-message response is not (its own fresh draw) + m * c");
                j += 1;
            }
            pos += 1;
        }
        round += 1;
    }
    o.on = false;
    kani::cover!(true, "all role equalities evaluated");
}
