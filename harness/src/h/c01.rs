//! C01 / C02 — signature completeness and binding, as contracts on one real entry point each
//! (DESIGN.md §2.6): everything real (generators, message mapping, domain, e); the oracle is the
//! model fold; the expected values come from the independent reference transcription.
use crate::common::*;
use crate::reference as rf;
use crate::stubs::{self, sym::*};
use crate::tp;

pub fn rsuite<CS: BbsCiphersuite>() -> &'static rf::RefSuite {
    if CS::ID[16] == b'M' { &rf::SHA } else { &rf::SHAKE }
}
pub fn opt_shape<const SH: usize>(store: &[u8; 2]) -> Option<&[u8]> {
    if SH == 0 {
        None
    } else if SH == 1 {
        Some(&store[..0])
    } else if SH == 2 {
        Some(&store[..1])
    } else {
        Some(&store[..])
    }
}
/// N messages; message i has length (i + MLEN0) % 3 octets (0, 1 or 2 symbolic octets)
pub fn any_msgs<const N: usize, const MLEN0: usize>() -> Vec<Vec<u8>> {
    let raw: [[u8; 2]; N] = kani::any();
    let mut v = Vec::new();
    let mut i = 0;
    while i < N {
        let l = (i + MLEN0) % 3;
        v.push(raw[i][..l].to_vec());
        i += 1;
    }
    v
}

/// sign contract: Ok, e = reference e, A * (sk + e) = reference B  (under sk + e != 0, B != identity)
pub fn sign_contract<CS: BbsCiphersuite, const L: usize, const HDR: usize, const MNONE: bool, const MLEN0: usize>()
where
    CS::Expander: for<'a> elliptic_curve::hash2curve::ExpandMsg<'a>,
{
    let sk = any_sk();
    let pk = sk.public_key();
    let msgs = any_msgs::<L, MLEN0>();
    let hs: [u8; 2] = kani::any();
    let hdr = opt_shape::<HDR>(&hs);
    // reference
    let api = rsuite::<CS>().api_id(false);
    let gens = stubs::ref_gens(L + 1, false);
    let ms = rf::map_all::<CS::Expander>(&msgs, &api);
    let p1 = stubs::p1_of::<CS>();
    let d = rf::domain::<CS::Expander>(&pk.0, &gens[0], &gens[1..], &api, hdr.unwrap_or(&[]));
    let e_ref = rf::sign_e::<CS::Expander>(&sk.0, &ms, &d, &api);
    let b_ref = rf::b_value(&p1, &gens[0], &gens[1..], &d, &ms);
    kani::assume(sk.0 + e_ref != Scalar::ZERO);
    kani::assume(b_ref != G1Projective::IDENTITY);
    let r = Signature::<BBSplus<CS>>::sign(if MNONE { None } else { Some(&msgs) }, &sk, &pk, hdr);
    kani::cover!(r.is_ok(), "sign succeeds");
    assert!(r.is_ok(), "C01: sign failed on a valid input");
    let sig = r.unwrap();
    assert!(sig.e() == e_ref, "C01/C10: signature exponent differs from the draft's e");
    assert!(sig.a() * (sk.0 + sig.e()) == b_ref, "C01: A * (sk + e) != B");
    // 80-byte round trip
    let bytes = sig.to_bytes();
    let sig2 = Signature::<BBSplus<CS>>::from_bytes(&bytes);
    assert!(sig2.is_ok(), "C01: signature does not decode from its own 80-byte encoding");
    assert!(sig2.unwrap() == sig, "C01: signature does not survive its 80-byte encoding");
}

/// verify contract: for an ARBITRARY decodable (A, e): verify == Ok  <=>  A * (sk + e) == reference B
pub fn verify_contract<CS: BbsCiphersuite, const L: usize, const HDR: usize, const MNONE: bool, const MLEN0: usize>()
where
    CS::Expander: for<'a> elliptic_curve::hash2curve::ExpandMsg<'a>,
{
    let sk = any_sk();
    let pk = sk.public_key();
    let msgs = any_msgs::<L, MLEN0>();
    let hs: [u8; 2] = kani::any();
    let hdr = opt_shape::<HDR>(&hs);
    let mut sb = [0u8; 80];
    put_g1(&mut sb, 0);
    put_nonzero_scalar(&mut sb, 48);
    let sig = Signature::<BBSplus<CS>>::from_bytes(&sb).unwrap();
    // reference
    let api = rsuite::<CS>().api_id(false);
    let gens = stubs::ref_gens(L + 1, false);
    let ms = rf::map_all::<CS::Expander>(&msgs, &api);
    let p1 = stubs::p1_of::<CS>();
    let d = rf::domain::<CS::Expander>(&pk.0, &gens[0], &gens[1..], &api, hdr.unwrap_or(&[]));
    let b_ref = rf::b_value(&p1, &gens[0], &gens[1..], &d, &ms);
    let good = sig.a() * (sk.0 + sig.e()) == b_ref;
    let r = sig.verify(&pk, if MNONE { None } else { Some(&msgs) }, hdr);
    kani::cover!(good && r.is_ok(), "a valid signature is accepted");
    kani::cover!(!good && r.is_err(), "an invalid signature is rejected");
    assert!(r.is_ok() == good, "C01/C02: verify decision differs from A*(sk+e) == B(reference)");
}
