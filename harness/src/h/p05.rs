//! C05 / C06 (/ C07, C11) — blind issuance flow with the PROGRAMMED oracle and the fixed draw table:
//! real `commit` -> `to_bytes` -> real `blind_sign` -> real `verify_blind_sign` in one query.
use crate::common::*;
use crate::reference as rf;
use crate::stubs::{self, sym::*};
use crate::tp;
use crate::h::c01::{any_msgs, opt_shape, rsuite};
use crate::h::p01::{all_dsts_start_with, program};
use elliptic_curve::model::{oracle, CAP_LEN};
use zkryptium::bbsplus::commitment::BlindFactor;

fn caps_equal(n: usize) -> bool {
    let o = oracle();
    let mut eq = true;
    let mut i = 0;
    while i + 8 <= n {
        eq = eq
            && o.cap[0][i] == o.cap[1][i] && o.cap[0][i + 1] == o.cap[1][i + 1]
            && o.cap[0][i + 2] == o.cap[1][i + 2] && o.cap[0][i + 3] == o.cap[1][i + 3]
            && o.cap[0][i + 4] == o.cap[1][i + 4] && o.cap[0][i + 5] == o.cap[1][i + 5]
            && o.cap[0][i + 6] == o.cap[1][i + 6] && o.cap[0][i + 7] == o.cap[1][i + 7];
        i += 8;
    }
    while i < n {
        eq = eq && o.cap[0][i] == o.cap[1][i];
        i += 1;
    }
    eq
}
pub fn scalar_at(b: &[u8], off: usize) -> Scalar {
    // model codec: [.., form, payload]
    if b[off + 30] == 1 {
        Scalar::from_nonzero_raw(b[off + 31] as u16 + 1)
    } else {
        Scalar::from_raw(0)
    }
}
/// scalar value of the k-th draw of the fixed table (the model maps a draw d to (d & 0xff) + 1)
pub fn draw_scalar(k: usize) -> Scalar {
    Scalar::from_nonzero_raw(((rand::model::TABLE[k % 16] & 0xff) as u16) + 1)
}

/// EDIT: 0 none (C05).  C06: 1 = one payload bit of segment SEG of the serialized commitment flipped
/// before blind_sign; 2 = a committed message replaced at verification; 3 = wrong blinding factor;
/// 4 = other header at verification; 5 = a signer message replaced at verification.
pub fn issuance_flow<CS: BbsCiphersuite, const L: usize, const M: usize, const HDR: usize, const EDIT: usize, const SEG: usize, const CLEN: usize>()
where
    CS::Expander: for<'a> elliptic_curve::hash2curve::ExpandMsg<'a>,
{
    let sk = BBSplusSecretKey(Scalar::from_nonzero_raw(5));
    let pk = sk.public_key();
    let msgs = any_msgs::<L, 1>();
    let cmsgs = any_msgs::<M, 2>();
    let hs: [u8; 2] = kani::any();
    let hdr = opt_shape::<HDR>(&hs);
    let n_commit = M + 1;
    let n_sign = 1 + L + 2;
    let n_verify = L + M + 1;
    program(n_commit + n_sign + n_verify);
    let o = oracle();
    o.draw_n = 0;
    o.ans[M] = 77; // commitment challenge (fixed, see p03)
    {
        // committed-message scalars are fixed distinct values as well (oracle states 11, 13, ..): with a
        // symbolic committed scalar the commitment-proof identity J*(m~ + m*c) - (J*m)*c = J*m~ did not
        // close within 600 s; signer-message scalars and the domain stay symbolic
        let mut j = 0;
        while j < M {
            o.ans[j] = 11 + 2 * j as u16;
            j += 1;
        }
    }
    o.ans[n_commit + 1 + L + 1] = 9; // e (fixed)
    o.cap_idx = [M, n_commit];
    let api = rsuite::<CS>().api_id(true);
    tp!("kind", "blindflow"); tp!("suite", crate::h::c08::suite_tag::<CS>()); tp!("msgs", &msgs); tp!("cmsgs", &cmsgs); tp!("hdr", hdr); tp!("edit", EDIT); tp!("seg", SEG);

    // ---- prover: commit -------------------------------------------------------------------
    let r = Commitment::<BBSplus<CS>>::commit(Some(&cmsgs));
    kani::cover!(r.is_ok(), "commit succeeds");
    assert!(r.is_ok(), "C05: commit failed");
    let (commitment, blind) = r.unwrap();
    assert!(o.n == n_commit, "C05/C10: commit made an unexpected number of oracle queries");
    assert!(o.draw_n == M + 2, "C07: commit does not draw exactly M + 2 random scalars");
    let mut cbytes = commitment.to_bytes();
    assert!(cbytes.len() == CLEN, "C05: serialized commitment has the wrong length");
    assert!(blind.to_bytes() == draw_scalar(0).to_be_bytes(), "C07: secret_prover_blind is not the first fresh draw");
    {
        // C10: the prover's commitment-challenge input is, octet for octet, I2OSP(M,8) || Q2 || J_1..J_M || C || Cbar
        // with C = Q2*blind + sum J_j*cm_j and Cbar = Q2*s~ + sum J_j*m~_j (blind, s~, m~_j = the first draws)
        let bg = stubs::ref_gens(M + 1, true);
        let mut c_pt = bg[0] * draw_scalar(0);
        let mut cbar = bg[0] * draw_scalar(1);
        let mut j = 0;
        while j < M {
            c_pt = c_pt + bg[1 + j] * rf::scalar_of_state(o.ans[j]);
            cbar = cbar + bg[1 + j] * draw_scalar(2 + j);
            j += 1;
        }
        let want = rf::blind_challenge_bytes(&bg, &c_pt, &cbar);
        assert!(crate::h::p01::cap_equals(0, &want), "C10: the octets hashed into the commitment challenge differ from the draft's input");
    }
    {
        // C07: every commitment-proof response is (its own fresh draw) + secret * challenge
        let c = Scalar::from_nonzero_raw(77);
        let s_hat = scalar_at(&cbytes, 48);
        assert!(s_hat - draw_scalar(0) * c == draw_scalar(1), "C07: s^ is not (second fresh draw) + secret_prover_blind * c");
        let mut i = 0;
        while i < M {
            let m_hat = scalar_at(&cbytes, 80 + 32 * i);
            assert!(m_hat - rf::scalar_of_state(o.ans[i]) * c == draw_scalar(2 + i), "C07: a committed-message response is not (its own fresh draw) + m * c");
            i += 1;
        }
    }

    // ---- signer: blind_sign -----------------------------------------------------------------
    o.ans[n_commit] = o.ans[M]; // same challenge query (checked below) => same answer
    let mut fresh_chal = false;
    if EDIT == 1 {
        // flip one bit of the payload octet of segment SEG (0 = C, 1 = s^, 2.. = m^_i, last = challenge)
        let pos = if SEG == 0 { 47 } else { 48 + 32 * (SEG - 1) + 31 };
        let bit: u8 = kani::any();
        kani::assume(bit < 8);
        cbytes[pos] ^= 1u8 << bit;
        o.ans[n_commit] = kani::any();
        fresh_chal = true;
    }
    let s = BlindSignature::<BBSplus<CS>>::blind_sign(&sk, &pk, Some(&cbytes), hdr, Some(&msgs));
    let chal_len = 8 + 48 * (M + 1) + 96;
    let same_chal = o.msg_len[n_commit] == chal_len && caps_equal(if chal_len < CAP_LEN { chal_len } else { CAP_LEN });
    if fresh_chal {
        // a tampered commitment-with-proof is signed only if the signer's own challenge computation
        // (an independent oracle answer, because the query differs) happens to equal the transmitted one
        if s.is_ok() {
            assert!(!same_chal, "C06: tampered commitment leads to the same challenge input");
            let transmitted = if SEG == M + 2 {
                // the challenge octet itself was flipped
                Scalar::from_nonzero_raw(cbytes[48 + 32 * (M + 1) + 31] as u16 + 1)
            } else {
                rf::scalar_of_state(o.ans[M])
            };
            assert!(rf::scalar_of_state(o.ans[n_commit]) == transmitted, "C06: blind_sign issued a signature for a commitment whose proof does not verify");
        }
        o.on = false;
        // (no early return: every instantiation keeps exactly one live reachability witness)
        kani::cover!(s.is_err(), "the expected outcome is reachable");
        return;
    }
    // degenerate events (probability 1/r): B before / after adding Q1*domain is the identity
    {
        let g0 = stubs::ref_gens(L + 1, false);
        let bg0 = stubs::ref_gens(M + 1, true);
        let mut bp = stubs::p1_of::<CS>() + bg0[0] * draw_scalar(0);
        let mut i = 0;
        while i < L {
            bp = bp + g0[1 + i] * rf::scalar_of_state(o.ans[n_commit + 1 + i]);
            i += 1;
        }
        let mut j = 0;
        while j < M {
            bp = bp + bg0[1 + j] * rf::scalar_of_state(o.ans[j]);
            j += 1;
        }
        kani::assume(bp != G1Projective::IDENTITY);
    }
    assert!(same_chal, "C05: signer's commitment-challenge input differs from the prover's");
    assert!(s.is_ok(), "C05: blind_sign refused an honest commitment");
    let sig = s.unwrap();
    assert!(o.n == n_commit + n_sign, "C05/C10: blind_sign made an unexpected number of oracle queries");
    // reference B = P1 + Q1*domain + sum H_i m_i + Q2*blind + sum J_j cm_j
    let gens = stubs::ref_gens(L + 1, false);
    let bgens = stubs::ref_gens(M + 1, true);
    let d = rf::scalar_of_state(o.ans[n_commit + 1 + L]);
    let e = rf::scalar_of_state(o.ans[n_commit + 1 + L + 1]);
    let mut b = stubs::p1_of::<CS>() + gens[0] * d + bgens[0] * draw_scalar(0);
    let mut i = 0;
    while i < L {
        b = b + gens[1 + i] * rf::scalar_of_state(o.ans[n_commit + 1 + i]);
        i += 1;
    }
    let mut j = 0;
    while j < M {
        b = b + bgens[1 + j] * rf::scalar_of_state(o.ans[j]);
        j += 1;
    }
    assert!(sig.e() == e, "C05/C10: blind signature exponent is not the oracle's answer to the e query");
    assert!(sig.A() * (sk.0 + e) == b, "C05: blind signature A*(sk+e) != P1 + Q1*domain + sum H_i m_i + C");

    // ---- holder: verify_blind_sign ------------------------------------------------------------
    let base = n_commit + n_sign;
    let mut i = 0;
    while i < L {
        o.ans[base + i] = o.ans[n_commit + 1 + i];
        i += 1;
    }
    let mut j = 0;
    while j < M {
        o.ans[base + L + j] = o.ans[j];
        j += 1;
    }
    o.ans[base + L + M] = o.ans[n_commit + 1 + L];
    let mut vblind_bytes = blind.to_bytes();
    let hs2: [u8; 2] = kani::any();
    let mut vhdr = hdr;
    let mut vmsgs = msgs.clone();
    let mut vcmsgs = cmsgs.clone();
    if EDIT == 2 {
        let fresh: u16 = kani::any();
        kani::assume(rf::scalar_of_state(fresh) != rf::scalar_of_state(o.ans[0]));
        o.ans[base + L] = fresh;
        vcmsgs[0] = vec![0xEE, 0xEE, 0xEE];
    } else if EDIT == 3 {
        vblind_bytes = draw_scalar(5).to_be_bytes();
    } else if EDIT == 4 {
        kani::assume(hs2[0] != hs[0]);
        vhdr = Some(&hs2[..1]);
        let fresh: u16 = kani::any();
        kani::assume(rf::scalar_of_state(fresh) != rf::scalar_of_state(o.ans[n_commit + 1 + L]));
        o.ans[base + L + M] = fresh;
    } else if EDIT == 5 {
        let fresh: u16 = kani::any();
        kani::assume(rf::scalar_of_state(fresh) != rf::scalar_of_state(o.ans[n_commit + 1]));
        o.ans[base] = fresh;
        vmsgs[0] = vec![0xEE, 0xEE, 0xEE];
    }
    let vblind = BlindFactor::from_bytes(&vblind_bytes).unwrap();
    let v = sig.verify_blind_sign(&pk, vhdr, Some(&vmsgs), Some(&vcmsgs), Some(&vblind));
    o.on = false;
    assert!(o.n == base + n_verify, "C05/C10: verify_blind_sign made an unexpected number of oracle queries");
    assert!(all_dsts_start_with(base + n_verify, &api), "C11: the blind interface hashed something under a DST that does not start with the blind api_id");
    if EDIT == 0 {
        assert!(v.is_ok(), "C05: honest blind signature rejected");
    } else {
        assert!(v.is_err(), "C06: blind signature verifies with an altered committed message / blinding factor / header / signer message");
    }
    if EDIT != 1 {
        kani::cover!(if EDIT == 0 { v.is_ok() } else { v.is_err() }, "the expected outcome is reachable");
    }
}

/// C05 / C06 — blind presentation: real `blind_proof_gen` then real `blind_proof_verify` for a valid
/// blind signature over L signer messages, the blinding factor and M committed messages, with ALL
/// messages disclosed (the blinding factor is the single undisclosed value: two or more undisclosed
/// values do not close within the caps, see C03).  EDIT: 0 none; 1 verifier told L + 1; 2 verifier told
/// L - 1 (L >= 1); 3 a disclosed committed message replaced; 4 signer / committed index lists swapped.
pub fn blind_proof_flow<CS: BbsCiphersuite, const L: usize, const M: usize, const HDR: usize, const EDIT: usize>()
where
    CS::Expander: for<'a> elliptic_curve::hash2curve::ExpandMsg<'a>,
{
    let sk = BBSplusSecretKey(Scalar::from_nonzero_raw(5));
    let pk = sk.public_key();
    let msgs = any_msgs::<L, 1>();
    let cmsgs = any_msgs::<M, 2>();
    let hs: [u8; 2] = kani::any();
    let hdr = opt_shape::<HDR>(&hs);
    let n_p = L + M + 2;
    let n_v = L + M + 2;
    program(n_p + n_v);
    let o = oracle();
    o.draw_n = 0;
    o.ans[L + M + 1] = 77; // prover's challenge
    o.cap_idx = [L + M + 1, n_p + L + M + 1];
    let api = rsuite::<CS>().api_id(true);
    // valid blind signature: messages (m_1..m_L, blind, cm_1..cm_M) over generators (H.., Q2, J..)
    let gens = stubs::ref_gens(L + 1, false);
    let bgens = stubs::ref_gens(M + 1, true);
    let blind_s = any_nonzero_scalar();
    let d = rf::scalar_of_state(o.ans[L + M]);
    let mut b = stubs::p1_of::<CS>() + gens[0] * d + bgens[0] * blind_s;
    let mut i = 0;
    while i < L {
        b = b + gens[1 + i] * rf::scalar_of_state(o.ans[i]);
        i += 1;
    }
    let mut j = 0;
    while j < M {
        b = b + bgens[1 + j] * rf::scalar_of_state(o.ans[L + j]);
        j += 1;
    }
    kani::assume(b != G1Projective::IDENTITY);
    let e = Scalar::from_nonzero_raw(9);
    let a = b * (sk.0 + e).invert().unwrap();
    kani::assume(a.0 != 0);
    let mut sb = [0u8; 80];
    sb[0] = 0x80;
    sb[47] = (a.0 - 1) as u8;
    sb[78] = 1;
    sb[79] = (e.0 - 1) as u8;
    let blind = BlindFactor::from_bytes(&blind_s.to_be_bytes()).unwrap();
    let idx1: Vec<usize> = (0..L).collect();
    let idx2: Vec<usize> = (0..M).collect();
    tp!("kind", "blindproofflow"); tp!("suite", crate::h::c08::suite_tag::<CS>()); tp!("msgs", &msgs); tp!("cmsgs", &cmsgs); tp!("hdr", hdr); tp!("edit", EDIT);
    let r = PoKSignature::<BBSplus<CS>>::blind_proof_gen(&pk, &sb, hdr, None, Some(&msgs), Some(&cmsgs), Some(&idx1), Some(&idx2), Some(&blind));
    kani::cover!(r.is_ok(), "blind_proof_gen succeeds");
    assert!(r.is_ok(), "C05: blind_proof_gen failed on a valid blind signature");
    let proof = r.unwrap();
    assert!(o.n == n_p, "C05/C10: blind_proof_gen made an unexpected number of oracle queries");
    assert!(o.draw_n == 5 + 1, "C07: blind_proof_gen does not draw exactly 5 + U fresh scalars");
    assert!(proof.to_bytes().len() == 272 + 32, "C05: blind proof length is not 272 + 32 * (number of undisclosed values)");
    // verifier: same messages => same answers; domain same; challenge same iff captured octets equal
    let mut k = 0;
    while k < L + M + 2 {
        o.ans[n_p + k] = o.ans[k];
        k += 1;
    }
    let mut vl = L;
    let mut vcm = cmsgs.clone();
    let mut vi1 = idx1.clone();
    let mut vi2 = idx2.clone();
    let mut vm = msgs.clone();
    let mut edited = false;
    if EDIT == 1 {
        vl = L + 1;
        edited = true;
    } else if EDIT == 2 {
        vl = L - 1;
        edited = true;
    } else if EDIT == 3 {
        let fresh: u16 = kani::any();
        kani::assume(rf::scalar_of_state(fresh) != rf::scalar_of_state(o.ans[L]));
        o.ans[n_p + L] = fresh;
        vcm[0] = vec![0xEE, 0xEE, 0xEE];
        edited = true;
    } else if EDIT == 4 {
        core::mem::swap(&mut vi1, &mut vi2);
        core::mem::swap(&mut vm, &mut vcm);
        edited = true;
    }
    if edited {
        let mut k = 0;
        while k < 3 {
            // any query after the edit point may differ: independent answers for domain / challenge
            k += 1;
        }
        o.ans[n_p + L + M] = kani::any();
        o.ans[n_p + L + M + 1] = kani::any();
    }
    o.on = true;
    let v = proof.blind_proof_verify(&pk, hdr, None, Some(vl), Some(&vm), Some(&vcm), Some(&vi1), Some(&vi2));
    o.on = false;
    let chal_len = 8 + (L + M) * 40 + 5 * 48 + 32 + 8;
    let same = o.msg_len[n_p + L + M + 1] == chal_len && caps_equal(if chal_len < CAP_LEN { chal_len } else { CAP_LEN });
    if !edited {
        assert!(o.n == n_p + n_v, "C05/C10: blind_proof_verify made an unexpected number of oracle queries");
        assert!(same, "C05: blind verifier's challenge input differs from the prover's (index translation j + L + 1, M = U + R - L - 1)");
        assert!(all_dsts_start_with(n_p + n_v, &api), "C11: the blind proof interface hashed something under a DST that does not start with the blind api_id");
        assert!(v.is_ok(), "C05: honest blind proof rejected");
    } else if v.is_ok() {
        // accepted although the statement differs: only possible if the verifier's own challenge
        // (independent answer, since its input differs) coincides with the transmitted one
        assert!(!same || rf::scalar_of_state(o.ans[n_p + L + M]) != d, "C06: an edited blind statement leads to the same challenge input");
        assert!(rf::scalar_of_state(o.ans[n_p + L + M + 1]) == rf::scalar_of_state(o.ans[L + M + 1]), "C06: edited blind statement accepted although the challenge differs");
    }
    kani::cover!(if EDIT == 0 { v.is_ok() } else { v.is_err() }, "the expected outcome is reachable");
}

/// C06: a commitment-with-proof truncated or extended by whole scalars / odd octet counts to LEN
/// octets (canonical framing, symbolic payload) that is not of the form 112 + 32k is refused by
/// `blind_sign`; one of the form 112 + 32k whose proof was made for fewer / more messages is covered by
/// the bit-flip and challenge checks of `issuance_flow`.
pub fn malformed_commitment_refused<CS: BbsCiphersuite, const LEN: usize, const L: usize>()
where
    CS::Expander: for<'a> elliptic_curve::hash2curve::ExpandMsg<'a>,
{
    let sk = BBSplusSecretKey(Scalar::from_nonzero_raw(5));
    let pk = sk.public_key();
    let msgs = any_msgs::<L, 1>();
    let mut buf = [0u8; LEN];
    if LEN >= 48 {
        put_g1(&mut buf, 0);
        let mut off = 48;
        while off + 32 <= LEN {
            put_scalar(&mut buf, off);
            off += 32;
        }
        while off < LEN {
            buf[off] = kani::any();
            off += 1;
        }
    }
    program(6);
    tp!("kind", "op"); tp!("entry", "blind_sign"); tp!("suite", crate::h::c08::suite_tag::<CS>()); tp!("pk", 5); tp!("commitment", &buf[..]); tp!("msgs", &[1u8; L][..]); tp!("expect_err", true);
    let r = BlindSignature::<BBSplus<CS>>::blind_sign(&sk, &pk, Some(&buf[..]), None, Some(&msgs));
    oracle().on = false;
    kani::cover!(r.is_err(), "refused");
    assert!(r.is_err(), "C06: blind_sign issued a signature for a truncated / malformed commitment-with-proof");
}
