//! C09 — encodings are canonical and strict (style P).
use crate::common::*;
use crate::tp;
use crate::stubs::sym::*;
use zkryptium::bbsplus::commitment::{BBSplusCommitment, BlindFactor};
use zkryptium::bbsplus::proof::{BBSplusPoKSignature, BBSplusZKPoK};
use zkryptium::bbsplus::signature::BBSplusSignature;

fn same(a: &[u8], b: &[u8]) -> bool {
    if a.len() != b.len() {
        return false;
    }
    let mut i = 0;
    while i < a.len() {
        if a[i] != b[i] {
            return false;
        }
        i += 1;
    }
    true
}

// ---- accepted octets re-encode to themselves (canonical + strict framing) ---------------------
pub fn canon_pk<const LEN: usize>() {
    let buf: [u8; LEN] = kani::any();
    tp!("kind", "canon"); tp!("entry", "pk"); tp!("bytes", &buf[..]);
    if let Ok(x) = BBSplusPublicKey::from_bytes(&buf[..]) {
        assert!(same(&x.to_bytes(), &buf[..]), "C09: accepted public-key octets do not re-encode to themselves");
        assert!(x.0 != G2Projective::IDENTITY, "C09: identity public key accepted");
    }
}
pub fn canon_sk<const LEN: usize>() {
    let buf: [u8; LEN] = kani::any();
    tp!("kind", "canon"); tp!("entry", "sk"); tp!("bytes", &buf[..]);
    if let Ok(x) = BBSplusSecretKey::from_bytes(&buf[..]) {
        assert!(same(&x.to_bytes(), &buf[..]), "C09: accepted secret-key octets do not re-encode to themselves");
    }
}
pub fn canon_sig() {
    let buf: [u8; 80] = kani::any();
    tp!("kind", "canon"); tp!("entry", "sig"); tp!("bytes", &buf[..]);
    if let Ok(x) = BBSplusSignature::from_bytes(&buf) {
        kani::cover!(true, "some signature accepted");
        assert!(same(&x.to_bytes(), &buf[..]), "C09: accepted signature octets do not re-encode to themselves");
        assert!(x.A != G1Projective::IDENTITY, "C09: identity signature point accepted");
        assert!(x.e != Scalar::ZERO, "C09: zero signature exponent accepted");
    }
}
pub fn canon_blind_sig<CS: BbsCiphersuite>() {
    let buf: [u8; 80] = kani::any();
    tp!("kind", "canon"); tp!("entry", "sig"); tp!("bytes", &buf[..]);
    if let Ok(x) = BlindSignature::<BBSplus<CS>>::from_bytes(&buf) {
        kani::cover!(true, "some signature accepted");
        assert!(same(&x.to_bytes(), &buf[..]), "C09: accepted blind-signature octets do not re-encode to themselves");
        assert!(x.A() != G1Projective::IDENTITY, "C09: identity signature point accepted");
        assert!(x.e() != Scalar::ZERO, "C09: zero signature exponent accepted");
    }
}
/// canonical framing for as many whole segments as fit (G1 x NP points, then scalars), symbolic tail
fn framed<const LEN: usize>(np: usize) -> [u8; LEN] {
    let mut b = [0u8; LEN];
    let mut off = 0;
    let mut k = 0;
    while k < np && off + 48 <= LEN {
        put_g1(&mut b, off);
        off += 48;
        k += 1;
    }
    if k == np {
        while off + 32 <= LEN {
            put_scalar(&mut b, off);
            off += 32;
        }
    }
    while off < LEN {
        b[off] = kani::any();
        off += 1;
    }
    b
}
/// proof framing strictness: canonically framed payload of total length LEN (symbolic payload octets,
/// symbolic trailing octets): accepted only at lengths 272 + 32k, and then it re-encodes to itself
pub fn canon_proof<const LEN: usize>() {
    let buf = framed::<LEN>(3);
    tp!("kind", "canon"); tp!("entry", "proof"); tp!("bytes", &buf[..]);
    let r = BBSplusPoKSignature::from_bytes(&buf[..]);
    kani::cover!(r.is_ok() || r.is_err(), "decoder returned");
    if let Ok(x) = r {
        assert!(LEN >= 272 && (LEN - 240) % 32 == 0, "C09: proof octets of a non-canonical length accepted");
        assert!(same(&x.to_bytes(), &buf[..]), "C09: accepted proof octets do not re-encode to themselves");
    }
}
pub fn canon_zkpok<const LEN: usize>() {
    let buf = framed::<LEN>(0);
    tp!("kind", "canon"); tp!("entry", "zkpok"); tp!("bytes", &buf[..]);
    let r = BBSplusZKPoK::from_bytes(&buf[..]);
    kani::cover!(r.is_ok() || r.is_err(), "decoder returned");
    if let Ok(x) = r {
        assert!(LEN >= 64 && LEN % 32 == 0, "C09: ZKPoK octets of a non-canonical length accepted");
        assert!(same(&x.to_bytes(), &buf[..]), "C09: accepted ZKPoK octets do not re-encode to themselves");
    }
}
pub fn canon_commitment<const LEN: usize>() {
    let buf = framed::<LEN>(1);
    tp!("kind", "canon"); tp!("entry", "commitment"); tp!("bytes", &buf[..]);
    let r = BBSplusCommitment::from_bytes(&buf[..]);
    kani::cover!(r.is_ok() || r.is_err(), "decoder returned");
    if let Ok(x) = r {
        assert!(LEN >= 112 && (LEN - 48) % 32 == 0, "C09: commitment octets of a non-canonical length accepted");
        assert!(same(&x.to_bytes(), &buf[..]), "C09: accepted commitment octets do not re-encode to themselves");
    }
}
/// draft-08 octets_to_proof: Abar, Bbar, D must not be the identity.  Point WHICH (0..3) of an
/// otherwise canonical proof with U responses is the identity encoding.
pub fn forbid_identity_proof<const U: usize, const LEN: usize, const WHICH: usize>() {
    let mut buf = framed::<LEN>(3);
    buf[48 * WHICH] = 0xC0;
    buf[48 * WHICH + 47] = 0;
    tp!("kind", "canon"); tp!("entry", "proof"); tp!("bytes", &buf[..]);
    let r = BBSplusPoKSignature::from_bytes(&buf[..]);
    kani::cover!(r.is_ok() || r.is_err(), "decoder returned");
    assert!(r.is_err(), "C09/C04: proof with an identity point accepted by the decoder");
}
pub fn canon_blindfactor() {
    let buf: [u8; 32] = kani::any();
    tp!("kind", "canon"); tp!("entry", "blindfactor"); tp!("bytes", &buf[..]);
    if let Ok(x) = BlindFactor::from_bytes(&buf) {
        kani::cover!(true, "some blind factor accepted");
        assert!(same(&x.to_bytes(), &buf[..]), "C09: accepted blind-factor octets do not re-encode to themselves");
    }
}
pub fn canon_coordinates() {
    let x: [u8; 96] = kani::any();
    let y: [u8; 96] = kani::any();
    tp!("kind", "canon"); tp!("entry", "coords"); tp!("bytes", &x[..]); tp!("bytes2", &y[..]);
    if let Ok(p) = BBSplusPublicKey::from_coordinates(&x, &y) {
        kani::cover!(true, "some coordinate pair accepted");
        let (x2, y2) = p.to_coordinates();
        assert!(same(&x, &x2) && same(&y, &y2), "C09: accepted coordinates do not re-encode to themselves");
        assert!(p.0 != G2Projective::IDENTITY, "C09: identity public key accepted from coordinates");
    }
}

// ---- decode(encode(x)) == x for every object value ---------------------------------------------
pub fn rt_pk() {
    let pk = BBSplusPublicKey(G2Projective::from_nonzero_dlog(any_elem()));
    assert!(BBSplusPublicKey::from_bytes(&pk.to_bytes()).unwrap() == pk);
    let (x, y) = pk.to_coordinates();
    assert!(BBSplusPublicKey::from_coordinates(&x, &y).unwrap() == pk);
}
pub fn rt_sk() {
    let sk = BBSplusSecretKey(any_scalar());
    assert!(BBSplusSecretKey::from_bytes(&sk.to_bytes()).unwrap() == sk);
}
pub fn rt_sig() {
    let s = BBSplusSignature { A: G1Projective::from_nonzero_dlog(any_elem()), e: any_nonzero_scalar() };
    assert!(BBSplusSignature::from_bytes(&s.to_bytes()).unwrap() == s);
}
pub fn rt_blindfactor() {
    let s = any_scalar();
    let bf = BlindFactor::from_bytes(&s.to_be_bytes()).unwrap();
    assert!(same(&bf.to_bytes(), &s.to_be_bytes()));
}
/// proof with U responses: every canonical octet string of the right length decodes, and it is the
/// encoding of what it decodes to (together with canon_proof: a bijection on that length)
pub fn rt_proof<const U: usize, const LEN: usize>() {
    let mut b = [0u8; LEN];
    let mut k = 0;
    while k < 3 {
        put_g1(&mut b, 48 * k);
        k += 1;
    }
    let mut j = 0;
    while j < 4 + U {
        put_scalar(&mut b, 144 + 32 * j);
        j += 1;
    }
    let p = BBSplusPoKSignature::from_bytes(&b[..]).expect("canonical proof octets decode");
    let re = p.to_bytes();
    assert!(re.len() == 272 + 32 * U);
    assert!(same(&re, &b[..]));
    let p2 = BBSplusPoKSignature::from_bytes(&re).unwrap();
    assert!(p2 == p);
}
pub fn rt_commitment<const M: usize, const LEN: usize>() {
    let mut b = [0u8; LEN];
    put_g1(&mut b, 0);
    let mut j = 0;
    while j < 2 + M {
        put_scalar(&mut b, 48 + 32 * j);
        j += 1;
    }
    let c = BBSplusCommitment::from_bytes(&b[..]).expect("canonical commitment octets decode");
    let re = c.to_bytes();
    assert!(re.len() == 112 + 32 * M);
    assert!(same(&re, &b[..]));
    assert!(BBSplusCommitment::from_bytes(&re).unwrap() == c);
}
