//! Programmable stand-ins for zkryptium's three public hashing helpers (DESIGN.md §2.6, style A).
//! They are faithful *abstractions*: same signatures, same error conditions, same result
//! shapes; the values they return are chosen (programmed) by the harness.
use crate::common::*;
use elliptic_curve::hash2curve::ExpandMsg;
use zkryptium::bbsplus::generators::Generators;
use zkryptium::utils::message::bbsplus_message::BBSplusMessage;

/// Stub for `alloc::fmt::format` (error paths build their messages with `format!`; formatting a
/// symbolic integer explodes the symbolic execution and is not the subject of any property).
pub fn fmt_stub(_args: core::fmt::Arguments<'_>) -> String {
    String::new()
}

pub const GT: usize = 12;
/// generator table: [0..6) for the first api_id family seen as "plain/blind main",
/// [6..12) for the "BLIND_"-prefixed family
pub static mut GEN_TABLE: [u16; GT] = [1; GT];
/// P1 stand-in returned by the stub (the real `create` parses CS::P1)
pub static mut GEN_CALLS: usize = 0;
pub static mut GEN_LAST_COUNT: usize = 0;
pub static mut GEN_TOTAL: usize = 0;
/// largest count the stub will materialise; a larger request is a work-bound violation
pub static mut GEN_BUDGET: usize = 6;

pub const MT: usize = 8;
/// message-scalar table: the k-th mapped message (over all calls, in call order) gets MSG_TABLE[k]
pub static mut MSG_TABLE: [u16; MT] = [0; MT];
pub static mut MSG_NEXT: usize = 0;
pub static mut MSG_CALLS: usize = 0;

pub const HT: usize = 6;
/// hash_to_scalar answers by call order
pub static mut H2S_TABLE: [u16; HT] = [0; HT];
pub static mut H2S_NEXT: usize = 0;
pub static mut H2S_MSG_LEN: [usize; HT] = [0; HT];
pub static mut H2S_DST_LEN: [usize; HT] = [0; HT];

pub fn reset_counters() {
    unsafe {
        GEN_CALLS = 0;
        GEN_TOTAL = 0;
        MSG_NEXT = 0;
        MSG_CALLS = 0;
        H2S_NEXT = 0;
    }
}

/// true iff api_id starts with "BLIND_" (the blind-generator family)
fn is_blind_family(api: &[u8]) -> bool {
    api.len() >= 6
        && api[0] == b'B'
        && api[1] == b'L'
        && api[2] == b'I'
        && api[3] == b'N'
        && api[4] == b'D'
        && api[5] == b'_'
}

pub fn p1_of<CS: BbsCiphersuite>() -> G1Projective {
    G1Projective::from_compressed_hex(CS::P1).unwrap()
}

/// Stub for `Generators::create`: prefix-consistent table lookup, family chosen by the
/// "BLIND_" prefix of api_id, `count + 1` overflow of the real loop header kept.
pub fn gens_stub<CS>(count: usize, api_id: Option<&[u8]>) -> Generators
where
    CS: BbsCiphersuite,
    CS::Expander: for<'a> ExpandMsg<'a>,
{
    let _ = count.checked_add(1).expect("attempt to add with overflow");
    let api = api_id.unwrap_or(&[]);
    let off = if is_blind_family(api) { GT / 2 } else { 0 };
    unsafe {
        GEN_CALLS += 1;
        GEN_LAST_COUNT = count;
        assert!(count <= GEN_BUDGET, "WORK-BOUND: generator count exceeds budget");
        GEN_TOTAL += count;
    }
    let mut values = Vec::new();
    let mut i = 0;
    while i < count {
        values.push(G1Projective(unsafe { GEN_TABLE[off + i] }));
        i += 1;
    }
    Generators {
        g1_base_point: p1_of::<CS>(),
        values,
    }
}

/// Stub for `BBSplusMessage::messages_to_scalar`: k-th mapped message gets MSG_TABLE[k].
pub fn m2s_stub<CS: BbsCiphersuite>(
    messages: &[Vec<u8>],
    api_id: &[u8],
) -> Result<Vec<BBSplusMessage>, Error>
where
    CS::Expander: for<'a> ExpandMsg<'a>,
{
    // the real function builds dst = api_id || MAP_MSG_SCALAR and fails if it exceeds 255
    if api_id.len() + CS::MAP_MSG_SCALAR.len() > 255 && messages.len() > 0 {
        return Err(Error::HashToScalarError);
    }
    let mut out = Vec::new();
    let mut i = 0;
    unsafe {
        MSG_CALLS += 1;
    }
    while i < messages.len() {
        let k = unsafe { MSG_NEXT };
        assert!(k < MT);
        out.push(BBSplusMessage::new(Scalar(unsafe { MSG_TABLE[k] })));
        unsafe {
            MSG_NEXT = k + 1;
        }
        i += 1;
    }
    Ok(out)
}

/// Stub for `BBSplusMessage::map_message_to_scalar_as_hash`.
pub fn m2s1_stub<CS: BbsCiphersuite>(_data: &[u8], api_id: &[u8]) -> Result<BBSplusMessage, Error>
where
    CS::Expander: for<'a> ExpandMsg<'a>,
{
    if api_id.len() + CS::MAP_MSG_SCALAR.len() > 255 {
        return Err(Error::HashToScalarError);
    }
    let k = unsafe { MSG_NEXT };
    assert!(k < MT);
    unsafe {
        MSG_NEXT = k + 1;
    }
    Ok(BBSplusMessage::new(Scalar(unsafe { MSG_TABLE[k] })))
}

/// Stub for `hash_to_scalar`: answers by call order; records lengths.
pub fn h2s_stub<CS: BbsCiphersuite>(msg: &[u8], dst: &[u8]) -> Result<Scalar, Error>
where
    CS::Expander: for<'a> ExpandMsg<'a>,
{
    if dst.len() > 255 {
        return Err(Error::HashToScalarError);
    }
    let k = unsafe { H2S_NEXT };
    assert!(k < HT);
    unsafe {
        H2S_MSG_LEN[k] = msg.len();
        H2S_DST_LEN[k] = dst.len();
        H2S_NEXT = k + 1;
    }
    Ok(Scalar(unsafe { H2S_TABLE[k] }))
}

#[cfg(kani)]
pub mod sym {
    use super::*;
    /// any non-identity group element (discrete log 1..=256)
    pub fn any_elem() -> u16 {
        let v: u8 = kani::any();
        v as u16 + 1
    }
    /// any scalar that fits one octet (0..=255); 256 is the only field element left out
    pub fn any_scalar() -> Scalar {
        let v: u8 = kani::any();
        Scalar(v as u16)
    }
    pub fn any_nonzero_scalar() -> Scalar {
        let v: u8 = kani::any();
        kani::assume(v != 0);
        Scalar(v as u16)
    }
    /// fill the generator table with symbolic non-identity elements
    pub fn any_gen_table() {
        let mut i = 0;
        while i < GT {
            unsafe {
                GEN_TABLE[i] = any_elem();
            }
            i += 1;
        }
    }
    pub fn any_msg_table() {
        let mut i = 0;
        while i < MT {
            unsafe {
                MSG_TABLE[i] = any_scalar().0;
            }
            i += 1;
        }
    }
    pub fn any_h2s_table() {
        let mut i = 0;
        while i < HT {
            unsafe {
                H2S_TABLE[i] = any_scalar().0;
            }
            i += 1;
        }
    }
    pub fn any_sk() -> BBSplusSecretKey {
        BBSplusSecretKey(any_nonzero_scalar())
    }
    /// canonical compressed G1 encoding of a symbolic non-identity element: decoding it never
    /// branches on the symbolic payload
    pub fn put_g1(b: &mut [u8], off: usize) {
        b[off] = 0x80;
        b[off + 47] = kani::any();
    }
    /// canonical scalar encoding of a symbolic one-octet scalar
    pub fn put_scalar(b: &mut [u8], off: usize) {
        b[off + 31] = kani::any();
    }
}
