//! Stubs shared by all harnesses.  No mutable global state is used anywhere in the default build:
//! Kani 0.68 / CBMC 6.11 report spurious invalid-pointer failures (and prune paths) after writes to
//! some `static mut` items, so every harness input is passed explicitly.
use crate::common::*;
use elliptic_curve::hash2curve::ExpandMsg;

/// Stub for `alloc::fmt::format` (error paths build their messages with `format!`; formatting a
/// symbolic integer explodes the symbolic execution and is not the subject of any property).
pub fn fmt_stub(_args: core::fmt::Arguments<'_>) -> String {
    String::new()
}

pub fn p1_of<CS: BbsCiphersuite>() -> G1Projective {
    G1Projective::from_compressed_hex(CS::P1).unwrap()
}

/// Fixed generator table of the contract harnesses: generator i of the plain family is element
/// 2 + 3*i, of the "BLIND_" family 101 + 5*i (distinct, non-identity, different from both P1 values
/// 169 / 138 for i < 12).  A pure function: no global state.
pub fn model_gen(i: usize, blind_family: bool) -> G1Projective {
    if blind_family {
        G1Projective::from_dlog(101 + 5 * i as u16)
    } else {
        G1Projective::from_dlog(2 + 3 * i as u16)
    }
}
fn is_blind_family(api: &[u8]) -> bool {
    api.len() >= 6 && api[0] == b'B' && api[1] == b'L' && api[2] == b'I' && api[3] == b'N' && api[4] == b'D' && api[5] == b'_'
}
/// Stub for `Generators::create` in contract harnesses (real creation is checked against the
/// reference by the C10/C11 unit harnesses): prefix-consistent table, family chosen by the "BLIND_"
/// prefix of api_id, the real loop header's `count + 1` overflow kept, request size capped (work bound).
pub fn gens_pure<CS>(count: usize, api_id: Option<&[u8]>) -> zkryptium::bbsplus::generators::Generators
where
    CS: BbsCiphersuite,
    CS::Expander: for<'a> ExpandMsg<'a>,
{
    let _ = count.checked_add(1).expect("attempt to add with overflow");
    assert!(count <= GEN_REQUEST_CAP, "WORK-BOUND: generator request not bounded by the size of the input");
    let blind = is_blind_family(api_id.unwrap_or(&[]));
    let mut values = Vec::new();
    let mut i = 0;
    // `i < GEN_REQUEST_CAP` is implied by the assertion above; stated again so that the loop bound is
    // syntactically constant for the symbolic-execution engine
    while i < count && i < GEN_REQUEST_CAP {
        values.push(model_gen(i, blind));
        i += 1;
    }
    zkryptium::bbsplus::generators::Generators { g1_base_point: p1_of::<CS>(), values }
}
pub fn ref_gens(count: usize, blind: bool) -> Vec<G1Projective> {
    let mut values = Vec::new();
    let mut i = 0;
    while i < count {
        values.push(model_gen(i, blind));
        i += 1;
    }
    values
}

/// largest generator request any registered shape can legitimately make
pub const GEN_REQUEST_CAP: usize = 10;

/// Stub for `prepare_parameters` used by the arithmetic harness of blind_proof_verify: checks that
/// the requested generator counts are bounded (work bound) and refuses, so that only the caller's own
/// arithmetic is executed.
pub fn prepare_parameters_refuse<CS>(
    _messages: Option<&[Vec<u8>]>,
    _committed_messages: Option<&[Vec<u8>]>,
    generators_number: usize,
    blind_generators_number: usize,
    _secret_prover_blind: Option<&zkryptium::bbsplus::commitment::BlindFactor>,
    _api_id: Option<&[u8]>,
) -> Result<(Vec<zkryptium::utils::message::bbsplus_message::BBSplusMessage>, zkryptium::bbsplus::generators::Generators), Error>
where
    CS: BbsCiphersuite,
    CS::Expander: for<'a> ExpandMsg<'a>,
{
    assert!(
        generators_number <= GEN_REQUEST_CAP && blind_generators_number <= GEN_REQUEST_CAP,
        "WORK-BOUND: generator request not bounded by the size of the input"
    );
    Err(Error::NotEnoughGenerators)
}

#[cfg(kani)]
pub mod sym {
    use super::*;
    /// any non-identity group element (discrete log 1..=256)
    pub fn any_elem() -> u16 {
        let v: u8 = kani::any();
        v as u16 + 1
    }
    /// any scalar of the field (0..=256)
    pub fn any_scalar() -> Scalar {
        let v: u16 = kani::any();
        kani::assume(v <= 256);
        Scalar::from_raw(v)
    }
    /// any non-zero scalar (1..=256), known to be non-zero syntactically
    pub fn any_nonzero_scalar() -> Scalar {
        let v: u8 = kani::any();
        Scalar::from_nonzero_raw(v as u16 + 1)
    }
    pub fn any_sk() -> BBSplusSecretKey {
        BBSplusSecretKey(any_nonzero_scalar())
    }
    /// canonical compressed G1 encoding of a symbolic non-identity element: decoding it never
    /// branches on the symbolic payload
    pub fn put_g1(b: &mut [u8], off: usize) {
        b[off] = 0x80;
        b[off + 47] = kani::any();
    }
    /// canonical encoding of a symbolic NON-ZERO scalar (1..=256): decoding it never branches on
    /// the symbolic payload and yields a value known to be non-zero (zero is the one value left out;
    /// the fully symbolic decoder queries cover it)
    pub fn put_scalar(b: &mut [u8], off: usize) {
        b[off + 30] = 1;
        b[off + 31] = kani::any();
    }
    pub fn put_nonzero_scalar(b: &mut [u8], off: usize) {
        put_scalar(b, off)
    }
}
