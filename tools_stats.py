import json,sys
d=json.load(open(sys.argv[1]))
st={c["harness_id"]:(c.get("cbmc_stats") or {}) for c in d.get("cbmc",[])}
f=lambda x: "%.1f"%x if isinstance(x,(int,float)) else "-"
for r in d["verification_results"]["results"]:
    h=r["harness_id"]; s=st.get(h,{})
    print(h.split("::")[-1], r["status"], "dur="+f(r["duration_ms"]/1000), "symex="+f(s.get("runtime_symex_s")), "solver="+f(s.get("runtime_solver_s")), "size=%s"%s.get("size_program_expression"), "vccs=%s/%s"%(s.get("vccs_remaining"),s.get("vccs_generated")))
    for c in r["checks"]:
        if c["status"]=="Failure": print("   FAIL:", c["description"][:110], "|", c["function"][:60], (c.get("location") or {}).get("line"))
