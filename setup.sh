#!/bin/bash
# Offline setup: pre-build the replay tool and warm one Kani workspace (everything is rebuilt from
# /repo's working tree by the checks themselves; this only saves time on the first check).
set -u
cd "$(dirname "$0")"
export CARGO_NET_OFFLINE=true
[ -f replay/Cargo.lock ] || cp /repo/Cargo.lock replay/Cargo.lock
(cd replay && cargo build --offline -q 2>&1 | tail -3) || true
python3 -c "import json,jsonschema" 2>/dev/null || true
exit 0
